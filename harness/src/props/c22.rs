//! C22 — outputs are deterministic across processes.
//! Ambient-state simulation: the same input is driven through the real pipeline under
//! perturbed hash keys (simulator-owned ahash key source), id-counter values, heap layout and
//! threads, and - second layer - in several real processes with genuine OS keys; every
//! observable must be byte-identical.

use crate::core::batch::Property;
use crate::core::batch::RunReport;
use crate::core::batch::Tier;
use crate::core::batch::Violation;
use crate::core::rng::mix;
use crate::core::rng::Digest;
use crate::core::rng::Rng;
use crate::pipeline;
use apollo_compiler::parser::FileId;
use serde_json::json;
use serde_json::Value as J;
use std::fmt::Write as _;
use std::process::Command;
use std::process::Stdio;

pub struct C22;

#[derive(Clone, Debug, PartialEq)]
pub enum Input {
    /// path relative to /repo
    File(String),
    Text(String),
    Smith(Vec<u8>),
}

#[derive(Clone, Debug, PartialEq, Default)]
pub struct Trial {
    pub rekey: Option<u64>,
    pub idskew: Option<u64>,
    pub heapskew: Option<u64>,
    pub thread: bool,
    /// other work done first on the trial's thread (other documents through the whole pipeline,
    /// serialised with other settings, introspected, then dropped): what a long-lived process has
    /// behind it when it meets this input — thread-local and address-keyed state, allocator reuse
    pub history: Option<u64>,
    /// environment variant (index into ENV_VARIANTS) in effect during the trial
    pub env: Option<u8>,
}

#[derive(Clone, Debug)]
pub struct Case {
    pub input: Input,
    pub trials: Vec<Trial>,
    /// how often each perturbed trial is repeated when looking for a divergence. std's
    /// `RandomState` (apollo-smith) takes its keys from the OS per thread and cannot be keyed from
    /// here, so replaying such a divergence means re-sampling threads: input-exact,
    /// key-probabilistic (DESIGN.md 3.1).
    pub resample: u32,
}

fn hex(bytes: &[u8]) -> String {
    bytes.iter().map(|b| format!("{b:02x}")).collect()
}

fn unhex(s: &str) -> Vec<u8> {
    (0..s.len() / 2)
        .filter_map(|i| u8::from_str_radix(&s[2 * i..2 * i + 2], 16).ok())
        .collect()
}

impl Case {
    pub fn to_json(&self) -> J {
        let input = match &self.input {
            Input::File(p) => json!({"file": p}),
            Input::Text(t) => json!({"text": t}),
            Input::Smith(b) => json!({"smith_bytes_hex": hex(b)}),
        };
        json!({
            "input": input,
            "resample": self.resample,
            "trials": self.trials.iter().map(|t| json!({
                "rekey": t.rekey.map(|k| k.to_string()),
                "idskew": t.idskew.map(|k| k.to_string()),
                "heapskew": t.heapskew.map(|k| k.to_string()),
                "thread": t.thread,
                "history": t.history.map(|k| k.to_string()),
                "env": t.env,
            })).collect::<Vec<_>>(),
        })
    }
    pub fn from_json(j: &J) -> Result<Case, String> {
        let i = &j["input"];
        let input = if let Some(p) = i["file"].as_str() {
            Input::File(p.to_string())
        } else if let Some(t) = i["text"].as_str() {
            Input::Text(t.to_string())
        } else if let Some(h) = i["smith_bytes_hex"].as_str() {
            Input::Smith(unhex(h))
        } else {
            return Err("case.input".into());
        };
        let num = |v: &J| v.as_str().and_then(|s| s.parse::<u64>().ok());
        let trials = j["trials"]
            .as_array()
            .ok_or("case.trials")?
            .iter()
            .map(|t| Trial {
                rekey: num(&t["rekey"]),
                idskew: num(&t["idskew"]),
                heapskew: num(&t["heapskew"]),
                thread: t["thread"].as_bool().unwrap_or(false),
                history: num(&t["history"]),
                env: t["env"].as_u64().map(|v| v as u8),
            })
            .collect();
        Ok(Case {
            input,
            trials,
            resample: j["resample"].as_u64().unwrap_or(1).clamp(1, 256) as u32,
        })
    }
}

// ------------------------------------------------------------------ inputs

fn corpus() -> &'static Vec<String> {
    static CORPUS: std::sync::OnceLock<Vec<String>> = std::sync::OnceLock::new();
    CORPUS.get_or_init(|| {
        let mut out = vec![];
        fn walk(dir: &std::path::Path, out: &mut Vec<String>) {
            let Ok(rd) = std::fs::read_dir(dir) else { return };
            let mut entries: Vec<_> = rd.flatten().map(|e| e.path()).collect();
            entries.sort();
            for p in entries {
                if p.is_dir() {
                    walk(&p, out);
                } else if p.extension().is_some_and(|e| e == "graphql") {
                    if let Ok(rel) = p.strip_prefix("/repo") {
                        out.push(rel.to_string_lossy().to_string());
                    }
                }
            }
        }
        walk(std::path::Path::new("/repo/crates/apollo-compiler/test_data"), &mut out);
        walk(std::path::Path::new("/repo/crates/apollo-parser/test_data/parser"), &mut out);
        walk(std::path::Path::new("/repo/crates/apollo-smith/examples"), &mut out);
        out
    })
}

/// Seeded amplifications: every hash container the code may iterate should hold enough entries
/// for its order to show. Sizes are drawn widely (2 … 40) because thresholds exist (e.g. an
/// index is only built above 20 arguments).
pub fn amplified(rng: &mut Rng) -> String {
    let size = |rng: &mut Rng| -> usize {
        match rng.below(40) {
            // rarely: well beyond any small-size optimisation
            39 => rng.range(64, 96) as usize,
            x => match x % 4 {
            0 => rng.range(2, 5) as usize,
            1 => rng.range(6, 12) as usize,
            2 => rng.range(21, 30) as usize,
            _ => rng.range(13, 40) as usize,
            },
        }
    };
    let mut s = String::new();
    let n = size(rng);
    // a base schema every template extends
    let _ = writeln!(s, "type Query {{ q0: Int node(id: ID): Node many(");
    for i in 0..n {
        let _ = write!(s, "a{i}: Int{} ", if i % 5 == 4 { "!" } else { "" });
    }
    let _ = writeln!(s, "): Int things: [Thing] u: U legacy: Int @deprecated older(a: Int @deprecated, b: Int @deprecated(reason: \"b\")): Int }}");
    let _ = writeln!(s, "interface Node {{ id: ID! }}");
    let _ = writeln!(s, "interface Thing {{ name: String label(x: Int): String }}");
    let _ = writeln!(s, "type Mutation {{ m0: Int m1: Int }}");
    let _ = writeln!(s, "type Subscription {{ s0: Int s1: Int }}");
    let _ = writeln!(s, "directive @defer(label: String, if: Boolean! = true) on FRAGMENT_SPREAD | INLINE_FRAGMENT");
    let templates = rng.range(2, 5);
    let mut picked = vec![];
    // Executable definitions are only validated against a *valid* schema: half of the documents
    // draw from the templates that keep the type system valid, so that the operation-side rules
    // actually run; the other half mixes freely (type-system rules, builder, orphan extensions).
    const KEEP_SCHEMA_VALID: [u64; 15] = [4, 5, 6, 10, 11, 12, 15, 16, 17, 18, 19, 20, 21, 22, 23];
    let exec_class = rng.chance(1, 2);
    for _ in 0..templates {
        picked.push(if exec_class {
            *rng.pick(&KEEP_SCHEMA_VALID)
        } else {
            rng.below(24)
        });
    }
    let mut ops = String::new();
    let mut members = vec![];
    for t in picked {
        let n = size(rng);
        match t {
            0 => {
                // many implementers, some incomplete (one error each), possibleTypes
                for i in 0..n {
                    let missing = i % 3 == 0;
                    let _ = writeln!(
                        s,
                        "type Impl{i} implements Node & Thing {{ id: ID! {} label(x: Int{}): String }}",
                        if missing { "" } else { "name: String" },
                        if i % 4 == 1 { ", extra: Int!" } else { "" }
                    );
                    members.push(format!("Impl{i}"));
                }
            }
            1 => {
                // undefined types referenced, in fields, arguments, unions, implements
                for i in 0..n {
                    let _ = writeln!(s, "type Ref{i} implements Missing{i} {{ f: Undefined{i} g(a: Nope{i}): Int }}");
                }
            }
            2 => {
                // duplicate definitions
                for i in 0..n {
                    let _ = writeln!(s, "type Dup{} {{ a: Int }}", i % 4);
                    let _ = writeln!(s, "enum DupE{} {{ A B A }}", i % 3);
                    let _ = writeln!(s, "directive @dupd{} on FIELD", i % 3);
                }
            }
            3 => {
                // orphan extensions (with and without adopt_orphan_extensions)
                for i in 0..n {
                    let kind = ["type", "interface", "enum", "input", "union", "scalar"][i % 6];
                    match kind {
                        "type" | "interface" => {
                            let _ = writeln!(s, "extend {kind} Orphan{i} {{ f{i}: Int }}");
                        }
                        "enum" => {
                            let _ = writeln!(s, "extend enum Orphan{i} {{ V{i} }}");
                        }
                        "input" => {
                            let _ = writeln!(s, "extend input Orphan{i} {{ f{i}: Int }}");
                        }
                        "union" => {
                            let _ = writeln!(s, "extend union Orphan{i} = Query");
                        }
                        _ => {
                            let _ = writeln!(s, "extend scalar Orphan{i} @specifiedBy(url: \"u{i}\")");
                        }
                    }
                }
            }
            4 => {
                // operation with unused / undefined variables and unused / undefined fragments
                let _ = write!(ops, "query Vars{n}(");
                for i in 0..n {
                    let _ = write!(ops, "$v{i}: Int ");
                }
                let _ = write!(ops, ") {{ many(");
                for i in 0..n.min(6) {
                    let _ = write!(ops, "a{i}: $undef{i} ");
                }
                let _ = writeln!(ops, ") ");
                for i in 0..n {
                    let _ = write!(ops, "...Undefined{i} ");
                }
                let _ = writeln!(ops, "}}");
                for i in 0..n {
                    let _ = writeln!(ops, "fragment Unused{i} on Query {{ q0 ...Unused{} }}", (i + 1) % n);
                }
            }
            5 => {
                // same response key, many arguments, several conflicting (field merging)
                let m = size(rng).max(3);
                let mut a = String::new();
                let mut b = String::new();
                for i in 0..m {
                    let _ = write!(a, "a{i}: {i} ");
                    let _ = write!(b, "a{i}: {} ", if i % 2 == 0 { i } else { i + 100 });
                }
                // `big` has exactly m arguments
                let _ = write!(s, "extend type Query {{ big{m}(");
                for i in 0..m {
                    let _ = write!(s, "a{i}: Int ");
                }
                let _ = writeln!(s, "): Int }}");
                let _ = writeln!(ops, "query Merge{m} {{ x: big{m}({a}) x: big{m}({b}) y: big{m}({a}) y: q0 }}");
            }
            6 => {
                // duplicate / unknown / missing arguments and repeated directives
                let _ = write!(ops, "query Args{n} {{ many(");
                for i in 0..n {
                    let _ = write!(ops, "a{}: 1 zz{i}: 2 ", i % 3);
                }
                let _ = write!(ops, ") q0");
                for i in 0..n {
                    let _ = write!(ops, " @skip(if: true) @nodir{i}");
                }
                let _ = writeln!(ops, " }}");
            }
            7 => {
                // input objects: cycles, unknown fields, duplicates; enum values
                for i in 0..n {
                    let _ = writeln!(s, "input In{i} {{ next: In{}! f: Int f: String g: Undef{i} }}", (i + 1) % n);
                }
                let _ = writeln!(s, "extend type Query {{ take(i: In0): Int }}");
                let _ = write!(ops, "query Inputs{n} {{ take(i: {{");
                for i in 0..n {
                    let _ = write!(ops, "unknown{i}: 1 ");
                }
                let _ = writeln!(ops, "}}) }}");
            }
            8 => {
                // unions with undefined / duplicate / non-object members
                let _ = write!(s, "union Big{n} =");
                for i in 0..n {
                    let _ = write!(s, " | M{} | Int | Gone{i}", i % 3);
                }
                let _ = writeln!(s);
                for i in 0..3 {
                    let _ = writeln!(s, "type M{i} {{ m: Int }}");
                }
            }
            9 => {
                // directive definitions: cycles, bad locations; applied with wrong args
                for i in 0..n {
                    let _ = writeln!(s, "directive @cyc{i}(a: Int @cyc{}) on ARGUMENT_DEFINITION | FIELD", (i + 1) % n);
                }
                let _ = write!(ops, "query Dirs{n} {{ q0");
                for i in 0..n {
                    let _ = write!(ops, " @cyc{i}(b: 1)");
                }
                let _ = writeln!(ops, " }}");
            }
            10 => {
                // many operations with the same / no name; subscriptions with several roots
                for i in 0..n {
                    let _ = writeln!(ops, "query Same{} {{ q0 }}", i % 3);
                }
                let _ = writeln!(ops, "{{ q0 }} {{ q0 }}");
            }
            12 => {
                // the same response key on an abstract parent and under several concrete types,
                // all conflicting: every group reports at the one abstract-parent field's location
                for i in 0..n {
                    let _ = writeln!(s, "type Conc{i} implements Node {{ id: ID! v{i}: Int w{i}: String }}");
                }
                let _ = write!(ops, "query Groups{n} {{ node {{ x: id ");
                for i in 0..n {
                    let _ = write!(ops, "... on Conc{i} {{ x: v{i} y: w{i} }} ");
                }
                let _ = writeln!(ops, "y: id }} }}");
            }
            13 => {
                // a type that misses many transitive interfaces: all reported at the type
                for i in 0..n {
                    let _ = writeln!(s, "interface Tr{i} {{ t{i}: Int }}");
                }
                let all: Vec<String> = (0..n).map(|i| format!("Tr{i}")).collect();
                let _ = write!(s, "interface All{n} implements {} {{", all.join(" & "));
                for i in 0..n {
                    let _ = write!(s, " t{i}: Int");
                }
                let _ = writeln!(s, " }}");
                let _ = write!(s, "type Thing{n} implements All{n} {{");
                for i in 0..n {
                    let _ = write!(s, " t{i}: Int");
                }
                let _ = writeln!(s, " }}");
            }
            14 => {
                // an implementer that lacks every field of a big interface: many errors, one location
                let _ = write!(s, "interface Wide{n} {{");
                for i in 0..n {
                    let _ = write!(s, " w{i}(a: Int): Int");
                }
                let _ = writeln!(s, " }}");
                let _ = writeln!(s, "type Narrow{n} implements Wide{n} {{ other: Int }}");
                let _ = write!(s, "type Wrong{n} implements Wide{n} {{");
                for i in 0..n {
                    let _ = write!(s, " w{i}(a: String, b: Int!): String");
                }
                let _ = writeln!(s, " }}");
            }
            15 => {
                // an input object literal that misses many required fields / a field with many
                // required arguments missing: many errors at one location
                let _ = write!(s, "input Req{n} {{");
                for i in 0..n {
                    let _ = write!(s, " r{i}: Int!");
                }
                let _ = writeln!(s, " }}");
                let _ = write!(s, "extend type Query {{ needs{n}(i: Req{n}");
                for i in 0..n {
                    let _ = write!(s, ", q{i}: Int!");
                }
                let _ = writeln!(s, "): Int }}");
                let _ = writeln!(ops, "query Missing{n} {{ needs{n}(i: {{}}) }}");
            }
            16 => {
                // a literal of a *valid* input type with many unknown, duplicate and missing fields,
                // directly, in a list, nested, in a variable default and in a directive argument
                let _ = write!(s, "input Ok{n} {{ need: Int!");
                for i in 0..n {
                    let _ = write!(s, " k{i}: Int");
                }
                let _ = writeln!(s, " inner: Ok{n} list: [Ok{n}!] }}");
                let _ = writeln!(s, "extend type Query {{ take{n}(i: Ok{n}, l: [Ok{n}]): Int }}");
                let _ = writeln!(s, "directive @cfg{n}(i: Ok{n}) on FIELD");
                let mut unknown = String::new();
                for i in 0..n {
                    let _ = write!(unknown, "zz{i}: {i} ");
                }
                let _ = writeln!(
                    ops,
                    "query Unknown{n}($d: Ok{n} = {{{unknown}}}) {{ take{n}(i: {{{unknown}}}, l: [{{{unknown}}}, {{need: 1, inner: {{{unknown}}}}}]) a: take{n}(i: $d) @cfg{n}(i: {{{unknown} k0: 1, k0: 2}}) }}"
                );
            }
            17 => {
                // the same @defer label in many named fragments, all spread from operations;
                // @defer reached at the root of several mutations / subscriptions through one fragment
                for i in 0..n {
                    let _ = writeln!(ops, "fragment Df{i} on Query {{ ... @defer(label: \"L{}\") {{ q0 }} }}", i % 3);
                }
                let _ = write!(ops, "query Defer{n} {{ q0 ");
                for i in (0..n).rev() {
                    let _ = write!(ops, "...Df{i} ");
                }
                let _ = writeln!(ops, "}}");
                let _ = writeln!(ops, "fragment RootDeferM{n} on Mutation {{ ... @defer(label: \"m{n}\") {{ m0 }} ... @defer(label: \"m{n}\") {{ m1 }} }}");
                let _ = writeln!(ops, "fragment RootDeferS{n} on Subscription {{ ... @defer(label: \"s{n}\") {{ s0 }} }}");
                for i in 0..n.min(8) {
                    let _ = writeln!(ops, "mutation DM{n}x{i} {{ ...RootDeferM{n} }}");
                    let _ = writeln!(ops, "subscription DS{n}x{i} {{ ...RootDeferS{n} }}");
                }
            }
            18 => {
                // one fragment that uses undefined variables, spread by many operations: the
                // diagnostics of all operations share the locations inside the fragment
                let _ = write!(ops, "fragment UsesVars{n} on Query {{ many(");
                for i in 0..n.min(12) {
                    let _ = write!(ops, "a{i}: $x{i} ");
                }
                let _ = writeln!(ops, ") again: many(a0: $x0, a1: $str) }}");
                for i in 0..n {
                    // some operations define some of the variables, with varying types
                    let _ = writeln!(
                        ops,
                        "query Op{n}x{i}($x{}: Int, $str: {}, $unused{i}: Int, $unused{i}: String) {{ ...UsesVars{n} ... on Query {{ ...UsesVars{n} }} }}",
                        i % 12,
                        ["String", "Int", "[Int]", "Boolean!"][i % 4]
                    );
                }
            }
            19 => {
                // subscriptions with many root fields (also through fragments) and introspection
                // roots; variables of non-input types, bad defaults, duplicate variables
                let _ = writeln!(ops, "fragment SubRoots{n} on Subscription {{ s0 s1 again: s0 __typename }}");
                for i in 0..n.min(10) {
                    let _ = writeln!(ops, "subscription Sub{n}x{i} {{ ...SubRoots{n} s1 __typename x{i}: s0 }}");
                }
                let _ = write!(ops, "query BadVars{n}(");
                for i in 0..n {
                    let _ = write!(
                        ops,
                        "$b{}: {} = {} ",
                        i % 5,
                        ["Query", "Int", "[Int!]", "Node", "String!"][i % 5],
                        ["1", "\"s\"", "[1, null, \"x\"]", "{}", "null"][i % 5]
                    );
                }
                let _ = writeln!(ops, ") {{ many(a0: $b1, a4: $b1, a1: $b2, a2: $b4) }}");
            }
            20 => {
                // leaf / composite mismatches, unknown fields / arguments / types / enum values,
                // many times each, also inside a fragment used from several places
                let _ = writeln!(s, "enum Choice{n} {{ {} }}", (0..n).map(|i| format!("C{i}")).collect::<Vec<_>>().join(" "));
                let _ = writeln!(s, "extend type Query {{ choose{n}(c: Choice{n}, cs: [Choice{n}!]): Choice{n} }}");
                let _ = write!(ops, "fragment Wrong{n} on Query {{ q0 {{ x }} node things u ");
                for i in 0..n {
                    let _ = write!(ops, "nope{i} many(zz{i}: 1) choose{n}(c: NOPE{i}, cs: [C0, NOPE{i}, \"C1\", {i}]) ");
                }
                let _ = writeln!(ops, "... on Gone{n} {{ a }} ... on Choice{n} {{ b }} }}");
                let _ = writeln!(ops, "query Wrongs{n}a {{ ...Wrong{n} }}");
                let _ = writeln!(ops, "query Wrongs{n}b {{ ... on Query {{ ...Wrong{n} }} ...Wrong{n} }}");
            }
            21 => {
                // fragment cycles through several paths, duplicate fragment names, spreads that can
                // never apply, fragments on leaf types, unused fragments that spread each other
                for i in 0..n {
                    let _ = writeln!(
                        ops,
                        "fragment Cy{n}x{i} on Query {{ q0 ...Cy{n}x{} ...Cy{n}x{} ...Cy{n}x{} }}",
                        (i + 1) % n,
                        (i * 7 + 3) % n,
                        i
                    );
                }
                let _ = writeln!(ops, "fragment Cy{n}x0 on Query {{ q0 }}");
                let _ = writeln!(ops, "fragment OnLeaf{n} on Int {{ x }}");
                let _ = write!(ops, "query Cycles{n} {{ ...Cy{n}x{} node {{ ...OnLeaf{n} ", n / 2);
                for i in 0..n.min(10) {
                    let _ = write!(ops, "...Cy{n}x{i} ... on Mutation {{ m0 }} ");
                }
                let _ = writeln!(ops, "}} }}");
            }
            22 => {
                // field merging: differing aliases, types and argument sets under one response key,
                // repeated in several sibling fragments, so that several conflicts share locations
                let _ = writeln!(s, "type Pair{n} {{ a: Int b: String c(x: Int): Int d: [Int] e: Int! }}");
                let _ = writeln!(s, "extend type Query {{ pair{n}: Pair{n} pairs{n}: [Pair{n}] }}");
                let _ = write!(ops, "query Conflicts{n} {{ pair{n} {{ ");
                for i in 0..n.min(12) {
                    let _ = write!(ops, "k: {} ", ["a", "b", "c(x: 1)", "c(x: 2)", "d", "e"][i % 6]);
                }
                let _ = write!(ops, "}} ");
                for i in 0..n.min(12) {
                    let _ = write!(ops, "...Cf{n}x{i} ");
                }
                let _ = writeln!(ops, "}}");
                for i in 0..n.min(12) {
                    let _ = writeln!(
                        ops,
                        "fragment Cf{n}x{i} on Query {{ pair{n} {{ k: {} j: {} }} p: pair{n} {{ a }} p: pairs{n} {{ a }} }}",
                        ["c(x: 3)", "a", "d", "e", "b"][i % 5],
                        ["a", "b", "e"][i % 3]
                    );
                }
            }
            23 => {
                // an interface hierarchy, valid: many objects behind a base interface, some through
                // a derived interface, deprecated members, repeatable directives, arguments with
                // defaults — what full introspection lists (possibleTypes, interfaces, args, …)
                let _ = writeln!(s, "interface Base{n} {{ id: ID! }}");
                let _ = writeln!(s, "interface Mid{n} implements Base{n} {{ id: ID! m(a: Int = 1, b: [String!] = [\"x\"]): Int }}");
                let _ = writeln!(s, "interface Leafy{n} implements Mid{n} & Base{n} {{ id: ID! m(a: Int = 1, b: [String!] = [\"x\"]): Int l: Int @deprecated }}");
                let _ = writeln!(s, "directive @rep{n}(k: Int = {n}) repeatable on OBJECT | FIELD_DEFINITION | ENUM_VALUE");
                for i in 0..n {
                    match i % 3 {
                        0 => {
                            let _ = writeln!(s, "type Obj{n}x{i} implements Mid{n} & Base{n} @rep{n} @rep{n}(k: {i}) {{ id: ID! m(a: Int = 1, b: [String!] = [\"x\"]): Int }}");
                        }
                        1 => {
                            let _ = writeln!(s, "type Obj{n}x{i} implements Base{n} {{ id: ID! own{i}: Int @deprecated(reason: \"r{i}\") }}");
                        }
                        _ => {
                            let _ = writeln!(s, "type Obj{n}x{i} implements Leafy{n} & Mid{n} & Base{n} {{ id: ID! m(a: Int = 1, b: [String!] = [\"x\"]): Int l: Int }}");
                        }
                    }
                    members.push(format!("Obj{n}x{i}"));
                }
                let _ = writeln!(s, "extend type Query {{ base{n}: Base{n} mid{n}: Mid{n} }}");
                let _ = writeln!(ops, "query Hier{n} {{ base{n} {{ id ... on Mid{n} {{ m ... on Leafy{n} {{ l }} }} }} }}");
            }
            _ => {
                // fragments on undefined / wrong types, spreads that cannot apply, cycles
                for i in 0..n {
                    let _ = writeln!(ops, "fragment Fr{i} on Nope{} {{ x ...Fr{} }}", i % 4, (i + 1) % n);
                }
                let _ = write!(ops, "query Frags{n} {{ node {{ id ");
                for i in 0..n {
                    let _ = write!(ops, "...Fr{i} ... on Impl{i} {{ id }} ");
                }
                let _ = writeln!(ops, "}} }}");
            }
        }
    }
    if members.is_empty() {
        members.push("Query".into());
    }
    let _ = writeln!(s, "union U = {}", members.join(" | "));
    s.push_str(&ops);
    s
}

pub fn input_for(seed: u64, unit: u64, tier: Tier) -> Input {
    let files = corpus();
    let n_files = files.len() as u64;
    if unit < n_files {
        return Input::File(files[unit as usize].clone());
    }
    let k = unit - n_files;
    let smith_every = match tier {
        Tier::Quick => 3,
        Tier::Thorough => 4,
    };
    let mut rng = Rng::new(mix(&[seed, 22, k]));
    if k % smith_every == smith_every - 1 {
        // a few very long byte strings: some of apollo-smith's paths (interface extensions that
        // add `implements` late, its topological-order fallback) need a lot of entropy to reach
        let huge = match tier {
            Tier::Quick => rng.chance(1, 50),
            Tier::Thorough => rng.chance(1, 8),
        };
        let len = if huge {
            rng.range(20_000, 120_000)
        } else {
            match rng.below(4) {
                0 => rng.range(0, 16),
                1 => rng.range(16, 200),
                2 => rng.range(200, 1500),
                _ => rng.range(1500, 6000),
            }
        } as usize;
        let style = rng.below(3);
        let bytes: Vec<u8> = (0..len)
            .map(|i| match style {
                0 => rng.below(256) as u8,
                1 => (rng.below(4) * 64 + rng.below(8)) as u8,
                _ => (i as u8).wrapping_mul(rng.below(7) as u8 + 1),
            })
            .collect();
        Input::Smith(bytes)
    } else {
        Input::Text(amplified(&mut rng))
    }
}

pub fn text_of(input: &Input) -> Result<Option<String>, String> {
    match input {
        Input::File(rel) => std::fs::read_to_string(format!("/repo/{rel}"))
            .map(Some)
            .map_err(|e| format!("cannot read /repo/{rel}: {e}")),
        Input::Text(t) => Ok(Some(t.clone())),
        Input::Smith(_) => Ok(None),
    }
}

/// byte strings longer than this only go through the apollo-smith stages
pub const HUGE_SMITH: usize = 8_000;

pub fn bundle(input: &Input) -> Result<Vec<(&'static str, String)>, String> {
    match input {
        Input::Smith(bytes) => {
            let mut out = pipeline::smith_bundle(bytes);
            if bytes.len() > HUGE_SMITH {
                // the generated document is megabytes long: the smith stages only
                return Ok(out);
            }
            let text = out[0].1.clone();
            // and the generated document fed back through the compiler pipeline
            for (k, v) in pipeline::full_bundle_opts(&text, false) {
                out.push((k, v));
            }
            Ok(out)
        }
        _ => Ok(pipeline::full_bundle(&text_of(input)?.unwrap())),
    }
}

// ------------------------------------------------------------------ trials

pub fn gen_trials(rng: &mut Rng, n: usize) -> Vec<Trial> {
    let mut trials = vec![Trial {
        rekey: Some(0),
        ..Default::default()
    }];
    for _ in 0..n {
        // swarm: a random subset of perturbations per trial; rekey in most
        trials.push(Trial {
            rekey: if rng.chance(9, 10) {
                Some(rng.next_u64() | 1)
            } else {
                Some(0)
            },
            idskew: if rng.chance(1, 2) {
                Some(match rng.below(5) {
                    0 => 3,
                    1 => 4,
                    2 => (1 << 16) + rng.below(1000),
                    3 => (1 << 32) + rng.below(1000),
                    _ => (1 << 62) - rng.below(1000) - 1,
                })
            } else {
                None
            },
            heapskew: if rng.chance(1, 3) {
                Some(rng.next_u64())
            } else {
                None
            },
            thread: rng.chance(1, 3),
            history: if rng.chance(1, 3) {
                Some(rng.next_u64())
            } else {
                None
            },
            env: if rng.chance(1, 4) {
                Some(1 + rng.below(3) as u8)
            } else {
                None
            },
        });
    }
    trials
}

fn run_trial(input: &Input, t: &Trial) -> Result<Vec<(&'static str, String)>, String> {
    let work = |input: &Input, t: &Trial| -> Result<Vec<(&'static str, String)>, String> {
        // heap skew: allocate and hold blocks so that every later address differs
        let mut held: Vec<Vec<u8>> = vec![];
        if let Some(seed) = t.heapskew {
            let mut r = Rng::new(seed);
            for _ in 0..r.range(1, 64) {
                held.push(vec![0u8; r.range(1, 4096) as usize]);
            }
        }
        if let Some(seed) = t.history {
            history_work(seed);
        }
        // environment in effect during the trial (the worker runs one case at a time, on one
        // thread: nobody else reads or writes the environment meanwhile)
        let mut saved_env: Vec<(&str, Option<String>)> = vec![];
        if let Some(v) = t.env {
            for (k, val) in ENV_VARIANTS[v as usize % ENV_VARIANTS.len()] {
                saved_env.push((k, std::env::var(k).ok()));
                match val {
                    Some(val) => std::env::set_var(k, val),
                    None => std::env::remove_var(k),
                }
            }
        }
        FileId::__verif_set_next(t.idskew.unwrap_or(3));
        ahash::sim::set_stream(t.rekey);
        let r = std::panic::catch_unwind(std::panic::AssertUnwindSafe(|| bundle(input)));
        ahash::sim::set_stream(None);
        for (k, old) in saved_env {
            match old {
                Some(old) => std::env::set_var(k, old),
                None => std::env::remove_var(k),
            }
        }
        drop(held);
        match r {
            Ok(r) => r,
            Err(_) => Ok(vec![("panic", crate::exec::take_last_panic())]),
        }
    };
    if t.thread {
        let input = input.clone();
        let t = t.clone();
        std::thread::Builder::new()
            .stack_size(64 << 20)
            .spawn(move || work(&input, &t))
            .map_err(|e| e.to_string())?
            .join()
            .map_err(|_| "trial thread panicked".to_string())?
    } else {
        work(input, t)
    }
}

/// Unrelated earlier work on the current thread; its results are dropped. Two or three corpus
/// documents (chosen by the seed) go through the whole pipeline, which includes serialisation with
/// non-default indentation settings and full introspection.
fn history_work(seed: u64) {
    let files = corpus();
    if files.is_empty() {
        return;
    }
    let mut r = Rng::new(seed);
    ahash::sim::set_stream(Some(seed | 1));
    for _ in 0..r.range(2, 3) {
        let f = &files[r.usize(files.len())];
        let _ = std::panic::catch_unwind(std::panic::AssertUnwindSafe(|| {
            let _ = bundle(&Input::File(f.clone()));
        }));
    }
    // and a small schema with default values of every kind, introspected and dropped, so that
    // freed definitions are likely to be reused by the input that follows
    let _ = std::panic::catch_unwind(std::panic::AssertUnwindSafe(|| {
        let n = r.range(1, 30);
        let mut sdl = String::from("type Query { f(");
        for i in 0..n {
            let _ = write!(sdl, "a{i}: Int = {} ", 1_000_000 + i);
        }
        // a built-in directive redefined with another default: must not outlive this schema
        let _ = write!(sdl, "): Int gone: Int @deprecated }} directive @deprecated(reason: String = \"gone for good\") on FIELD_DEFINITION | ARGUMENT_DEFINITION | INPUT_FIELD_DEFINITION | ENUM_VALUE input I {{ ");
        for i in 0..n {
            let _ = write!(sdl, "k{i}: String = \"h{i}\" ");
        }
        sdl.push('}');
        let _ = bundle(&Input::Text(sdl));
    }));
    let _ = crate::exec::take_last_panic();
    ahash::sim::set_stream(None);
}

pub struct CaseResult {
    pub violation: Option<Violation>,
    pub counters: Vec<(String, u64)>,
    pub digest: u64,
    /// index of the first trial that differs from trial 0
    pub differing_trial: Option<usize>,
}

fn first_difference(a: &[(&'static str, String)], b: &[(&'static str, String)]) -> Option<(String, String)> {
    for (i, (stage, out)) in a.iter().enumerate() {
        match b.get(i) {
            None => return Some((stage.to_string(), "stage missing in the other trial".into())),
            Some((stage2, out2)) => {
                if stage != stage2 {
                    return Some((stage.to_string(), format!("stage order differs: {stage} vs {stage2}")));
                }
                if out != out2 {
                    let at = out
                        .bytes()
                        .zip(out2.bytes())
                        .position(|(x, y)| x != y)
                        .unwrap_or(out.len().min(out2.len()));
                    let lo = floor_boundary(out, at.saturating_sub(60));
                    let hi1 = floor_boundary(out, (at + 60).min(out.len()));
                    let lo2 = floor_boundary(out2, at.saturating_sub(60));
                    let hi2 = floor_boundary(out2, (at + 60).min(out2.len()));
                    return Some((
                        stage.to_string(),
                        format!("at byte {at}: `{}` vs `{}`", &out[lo..hi1], &out2[lo2..hi2]),
                    ));
                }
            }
        }
    }
    if b.len() > a.len() {
        return Some((b[a.len()].0.to_string(), "extra stage in the other trial".into()));
    }
    None
}

fn floor_boundary(s: &str, mut i: usize) -> usize {
    while i > 0 && !s.is_char_boundary(i) {
        i -= 1;
    }
    i
}

/// Every case runs on a thread of its own, so that the thread-local state a trial meets is exactly
/// what the earlier trials of the same case (and its own `history`) left behind — which is what a
/// replay file reproduces — and never what other units of the batch did.
pub fn exec_case(case: &Case) -> Result<CaseResult, String> {
    let case = case.clone();
    std::thread::Builder::new()
        .stack_size(64 << 20)
        .spawn(move || exec_case_here(&case))
        .map_err(|e| e.to_string())?
        .join()
        .map_err(|_| "case thread panicked".to_string())?
}

fn exec_case_here(case: &Case) -> Result<CaseResult, String> {
    crate::props::c31::warm_up();
    let mut counters: Vec<(String, u64)> = vec![];
    let mut add = |k: &str, v: u64| counters.push((k.to_string(), v));
    let base = run_trial(&case.input, &case.trials[0])?;
    let mut d = Digest::new();
    for (k, v) in &base {
        d.update_str(k);
        d.update_str(v);
        add(&format!("stage.{k}"), 1);
        if v.contains(" diagnostics\n") && !v.contains("\n0 diagnostics\n") && !v.starts_with("0 diagnostics") {
            add("probe.stage_with_diagnostics", 1);
        }
    }
    let mut violation = None;
    let mut differing = None;
    for (i, t) in case.trials.iter().enumerate().skip(1) {
        let mut out = run_trial(&case.input, t)?;
        for _ in 1..case.resample {
            if first_difference(&base, &out).is_some() {
                break;
            }
            out = run_trial(&case.input, t)?;
            add("trials.resampled", 1);
        }
        add("trials", 1);
        if t.rekey.is_some_and(|k| k != 0) {
            add("perturb.rekey", 1);
            add("perturb.rekey.random_states_created", ahash::sim::created());
        }
        if t.idskew.is_some() {
            add("perturb.idskew", 1);
        }
        if t.heapskew.is_some() {
            add("perturb.heapskew", 1);
        }
        if t.thread {
            add("perturb.thread", 1);
        }
        if t.history.is_some() {
            add("perturb.history", 1);
        }
        if t.env.is_some() {
            add("perturb.env", 1);
        }
        if violation.is_none() {
            if let Some((stage, what)) = first_difference(&base, &out) {
                differing = Some(i);
                violation = Some(Violation {
                    class: "output_differs".into(),
                    detail: format!(
                        "stage {stage} | trial {i} ({}) differs from the baseline trial {what}",
                        trial_brief(t)
                    ),
                });
            }
        }
    }
    match &case.input {
        Input::File(_) => add("input.corpus_file", 1),
        Input::Text(_) => add("input.amplified", 1),
        Input::Smith(b) => {
            add("input.smith_bytes", 1);
            if b.len() > HUGE_SMITH {
                add("input.smith_bytes_huge", 1);
            }
        }
    }
    Ok(CaseResult {
        violation,
        counters,
        digest: d.u64(),
        differing_trial: differing,
    })
}

fn trial_brief(t: &Trial) -> String {
    let mut parts = vec![];
    if t.rekey.is_some_and(|k| k != 0) {
        parts.push("rekey");
    }
    if t.idskew.is_some() {
        parts.push("idskew");
    }
    if t.heapskew.is_some() {
        parts.push("heapskew");
    }
    if t.thread {
        parts.push("thread");
    }
    if t.history.is_some() {
        parts.push("history");
    }
    if t.env.is_some() {
        parts.push("env");
    }
    parts.join("+")
}

/// The canary: a stage that iterates an apollo-compiler HashSet must diverge between two key
/// streams, otherwise `rekey` is not actually re-keying and nothing this check says can be believed.
pub fn canary() -> Result<(), String> {
    let order = |seed: u64| -> Vec<&'static str> {
        ahash::sim::set_stream(Some(seed));
        let set: apollo_compiler::collections::HashSet<&'static str> =
            ["a", "b", "c", "d", "e", "f", "g", "h", "i", "j", "k", "l"].into_iter().collect();
        let v = set.into_iter().collect();
        ahash::sim::set_stream(None);
        v
    };
    let a = order(1);
    if a != order(1) {
        return Err("canary: the same key stream gave two iteration orders".into());
    }
    if (2..6).all(|s| order(s) == a) {
        return Err("canary: re-keying does not change HashSet iteration order (ahash-sim not in effect)".into());
    }
    Ok(())
}

fn n_trials(tier: Tier) -> usize {
    match tier {
        Tier::Quick => 6,
        Tier::Thorough => 24,
    }
}

// ------------------------------------------------------------------ second layer: real processes

/// Child mode: digests of every input of the batch, computed with genuine OS hash keys
pub fn digests_main(args: &[String]) -> i32 {
    let tier = if args.first().map(|s| s.as_str()) == Some("thorough") {
        Tier::Thorough
    } else {
        Tier::Quick
    };
    let seed: u64 = args.get(1).and_then(|s| s.parse().ok()).unwrap_or(1);
    let from: u64 = args.get(2).and_then(|s| s.parse().ok()).unwrap_or(0);
    let to: u64 = args.get(3).and_then(|s| s.parse().ok()).unwrap_or(0);
    child_prelude();
    let threads = 4usize;
    let mut handles = vec![];
    for w in 0..threads {
        handles.push(
            std::thread::Builder::new()
                .stack_size(64 << 20)
                .spawn(move || {
                    let mut out = vec![];
                    let mut unit = from + w as u64;
                    while unit < to {
                        let input = input_for(seed, unit, tier);
                        let r = std::panic::catch_unwind(std::panic::AssertUnwindSafe(|| bundle(&input)));
                        let mut d = Digest::new();
                        match r {
                            Ok(Ok(b)) => {
                                for (k, v) in &b {
                                    d.update_str(k);
                                    d.update_str(v);
                                }
                            }
                            _ => d.update_str("panic-or-error"),
                        }
                        out.push((unit, d.u64()));
                        unit += threads as u64;
                    }
                    out
                })
                .unwrap(),
        );
    }
    let mut all = vec![];
    for h in handles {
        all.extend(h.join().unwrap_or_default());
    }
    all.sort();
    let line: Vec<String> = all.iter().map(|(u, d)| format!("{u}:{d:016x}")).collect();
    println!("{}", line.join(" "));
    0
}

/// Environment variants: the same text must give the same output whatever terminal, colour and
/// locale settings the process was started with (`Display` output is specified as colourless).
pub const ENV_VARIANTS: &[&[(&str, Option<&str>)]] = &[
    &[],
    &[("TERM", Some("dumb")), ("NO_COLOR", Some("1"))],
    &[("TERM", Some("xterm-256color")), ("CLICOLOR_FORCE", Some("1")), ("COLORTERM", Some("truecolor")), ("NO_COLOR", None)],
    &[("TERM", None), ("LANG", Some("C")), ("LC_ALL", Some("tr_TR.UTF-8")), ("TZ", Some("Pacific/Apia")), ("COLUMNS", Some("20"))],
];

/// Odd-numbered child processes of the second layer do unrelated work first (the history work
/// of the in-process trials): state that the *first* use in a process pins for the rest of its
/// life (a lazily initialised static filled from whatever schema came first) then differs between
/// children.
fn child_prelude() {
    if std::env::var_os("VERIF_CHILD_HISTORY").is_some() {
        history_work(0x5EED_0001);
    }
}

fn apply_env_variant(cmd: &mut Command, variant: usize) {
    if variant % 2 == 1 {
        cmd.env("VERIF_CHILD_HISTORY", "1");
    } else {
        cmd.env_remove("VERIF_CHILD_HISTORY");
    }
    for (k, v) in ENV_VARIANTS[variant % ENV_VARIANTS.len()] {
        match v {
            Some(v) => {
                cmd.env(k, v);
            }
            None => {
                cmd.env_remove(k);
            }
        }
    }
}

fn process_layer(seed: u64, tier: Tier, units: u64, processes: usize) -> Result<(J, Vec<(Violation, J)>), String> {
    let exe = std::env::current_exe().map_err(|e| e.to_string())?;
    let started = std::time::Instant::now();
    let mut children = vec![];
    for p in 0..processes {
        let mut cmd = Command::new(&exe);
        cmd.arg("c22-digests")
            .arg(tier.name())
            .arg(seed.to_string())
            .arg("0")
            .arg(units.to_string())
            .stdin(Stdio::null())
            .stdout(Stdio::piped())
            .stderr(Stdio::null());
        apply_env_variant(&mut cmd, p);
        children.push(cmd.spawn().map_err(|e| e.to_string())?);
    }
    let mut tables: Vec<std::collections::BTreeMap<u64, String>> = vec![];
    for c in children {
        let out = c.wait_with_output().map_err(|e| e.to_string())?;
        if !out.status.success() {
            return Err(format!("digest child exited with {:?}", out.status));
        }
        let text = String::from_utf8_lossy(&out.stdout);
        let mut t = std::collections::BTreeMap::new();
        for tok in text.split_whitespace() {
            if let Some((u, d)) = tok.split_once(':') {
                if let Ok(u) = u.parse::<u64>() {
                    t.insert(u, d.to_string());
                }
            }
        }
        tables.push(t);
    }
    let mut violations = vec![];
    let mut compared = 0u64;
    for (unit, d0) in &tables[0] {
        compared += 1;
        for (p, t) in tables.iter().enumerate().skip(1) {
            if t.get(unit) != Some(d0) {
                let input = input_for(seed, *unit, tier);
                let case = json!({"process_layer": true, "input": Case { input, trials: vec![], resample: 1 }.to_json()["input"].clone(), "processes": 16});
                violations.push((
                    Violation {
                        class: "output_differs_across_processes".into(),
                        detail: format!("unit {unit} | process 0 and process {p} (genuine OS hash keys) produced different output bundles"),
                    },
                    case,
                ));
                break;
            }
        }
        if violations.len() >= 3 {
            break;
        }
    }
    Ok((
        json!({"process_layer": {"processes": processes, "inputs_compared": compared, "wall_s": started.elapsed().as_secs_f64(),
               "note": "each process: fresh OS keys for ahash (disarmed ahash-sim) and std RandomState, fresh ASLR, cold lazy statics, 4 threads, one of 4 environment variants (TERM / NO_COLOR / CLICOLOR_FORCE / LANG / LC_ALL / TZ / COLUMNS); odd-numbered processes do unrelated work first (other documents, a schema that redefines a built-in directive)"}}),
        violations,
    ))
}

/// Replay of a process-layer finding: the input is exact, the keys are the OS's, so re-sample
/// processes and report the first differing pair.
fn replay_process_layer(case: &J) -> Result<Option<Violation>, String> {
    let input = Case::from_json(&json!({"input": case["input"].clone(), "trials": []}))?.input;
    let exe = std::env::current_exe().map_err(|e| e.to_string())?;
    let n = case["processes"].as_u64().unwrap_or(16).min(64);
    let mut first: Option<String> = None;
    for p in 0..n {
        let mut cmd = Command::new(&exe);
        cmd.arg("c22-one").stdin(Stdio::piped()).stdout(Stdio::piped()).stderr(Stdio::null());
        apply_env_variant(&mut cmd, p as usize);
        let out = cmd
            .spawn()
            .and_then(|mut c| {
                use std::io::Write as _;
                c.stdin
                    .take()
                    .unwrap()
                    .write_all(Case { input: input.clone(), trials: vec![], resample: 1 }.to_json().to_string().as_bytes())?;
                c.wait_with_output()
            })
            .map_err(|e| e.to_string())?;
        let text = String::from_utf8_lossy(&out.stdout).to_string();
        match &first {
            None => first = Some(text),
            Some(f) => {
                if *f != text {
                    return Ok(Some(Violation {
                        class: "output_differs_across_processes".into(),
                        detail: format!("replay | process 0 and process {p} differ"),
                    }));
                }
            }
        }
    }
    Ok(None)
}

/// Child mode for the replay above: print the bundle digest of one input (OS keys)
pub fn one_main() -> i32 {
    let mut text = String::new();
    if std::io::Read::read_to_string(&mut std::io::stdin(), &mut text).is_err() {
        return 2;
    }
    let Ok(j) = serde_json::from_str::<J>(&text) else { return 2 };
    let Ok(case) = Case::from_json(&j) else { return 2 };
    child_prelude();
    let r = std::panic::catch_unwind(std::panic::AssertUnwindSafe(|| bundle(&case.input)));
    match r {
        Ok(Ok(b)) => {
            let mut d = Digest::new();
            for (k, v) in &b {
                d.update_str(k);
                d.update_str(v);
            }
            println!("{}", d.hex());
        }
        _ => println!("panic-or-error"),
    }
    0
}

impl Property for C22 {
    fn id(&self) -> &'static str {
        "C22"
    }
    fn engine(&self) -> &'static str {
        "ambient"
    }
    fn level(&self) -> &'static str {
        "exploration"
    }
    fn units(&self, tier: Tier) -> u64 {
        corpus().len() as u64
            + match tier {
                Tier::Quick => 900,
                Tier::Thorough => 30_000,
            }
    }

    fn run_unit(&self, seed: u64, unit: u64, tier: Tier, sink: &mut dyn FnMut(RunReport)) {
        static CANARY: std::sync::Once = std::sync::Once::new();
        CANARY.call_once(|| {
            if let Err(e) = canary() {
                eprintln!("harness error: {e}");
                std::process::exit(2);
            }
        });
        let input = input_for(seed, unit, tier);
        let mut tr = Rng::new(mix(&[seed, 2200, unit]));
        let mut trials = gen_trials(&mut tr, n_trials(tier));
        if matches!(&input, Input::Smith(b) if b.len() > HUGE_SMITH) {
            // seconds per trial: baseline plus three trials, each on a fresh thread (apollo-smith's
            // maps are std's, keyed per thread)
            trials.truncate(4);
            for t in trials.iter_mut().skip(1) {
                t.thread = true;
                t.history = None;
            }
        }
        let case = Case {
            input,
            trials,
            resample: 1,
        };
        let r = match exec_case(&case) {
            Ok(r) => r,
            Err(e) => {
                eprintln!("harness error: {e}");
                std::process::exit(2);
            }
        };
        let mut rep = RunReport::default();
        rep.case_digest = r.digest;
        rep.schedule_digest = mix(&[seed, 2201, unit]);
        rep.nontrivial = true;
        rep.event_digest = r.digest;
        rep.counters = r.counters;
        if let Some(v) = r.violation {
            // keep only the baseline and the differing trial
            let mut c = case.clone();
            if let Some(i) = r.differing_trial {
                c.trials = vec![case.trials[0].clone(), case.trials[i].clone()];
                // a divergence that the controlled key stream does not explain can only come
                // from state this process cannot key (std RandomState): replay by re-sampling,
                // on fresh threads
                let mut controlled = c.clone();
                controlled.trials[1].thread = false;
                let explained = matches!(exec_case(&controlled), Ok(r2) if r2.violation.is_some())
                    && matches!(exec_case(&controlled), Ok(r3) if r3.violation.is_some());
                if !explained {
                    c.resample = 64;
                    c.trials[1].thread = true;
                }
            }
            rep.violation = Some((v, c.to_json()));
        }
        if unit % 97 == 0 && unit < 1000 {
            let mut sample = case.to_json();
            if let Some(t) = sample["input"]["text"].as_str() {
                let short: String = t.chars().take(400).collect();
                sample["input"]["text"] = json!(format!("{short}…"));
            }
            rep.sample = Some(sample);
        }
        sink(rep);
    }

    fn replay(&self, case: &J) -> Result<Option<Violation>, String> {
        if case["process_layer"].as_bool() == Some(true) {
            return replay_process_layer(case);
        }
        let case = Case::from_json(case)?;
        Ok(exec_case(&case)?.violation)
    }

    fn minimise(&self, case: &J, class: &str) -> (J, u64) {
        let Ok(mut best) = Case::from_json(case) else {
            return (case.clone(), 0);
        };
        let mut steps = 0u64;
        let same = |c: &Case, steps: &mut u64| -> bool {
            *steps += 1;
            matches!(exec_case(c), Ok(r) if r.violation.as_ref().map(|v| v.class.as_str()) == Some(class))
        };
        // simplify the differing trial: drop perturbations one at a time
        if best.trials.len() >= 2 {
            for which in 0..6 {
                let mut c = best.clone();
                let t = &mut c.trials[1];
                match which {
                    5 => t.env = None,
                    4 => t.history = None,
                    0 => t.thread = false,
                    1 => t.heapskew = None,
                    2 => t.idskew = None,
                    _ => t.rekey = Some(0),
                }
                if c.trials[1] != best.trials[1] && same(&c, &mut steps) {
                    best = c;
                }
            }
        }
        // shrink a text input by removing top-level definitions (ddmin over definitions)
        let text = match &best.input {
            Input::File(rel) => std::fs::read_to_string(format!("/repo/{rel}")).ok(),
            Input::Text(t) => Some(t.clone()),
            Input::Smith(_) => None,
        };
        if let Some(text) = text {
            let doc = match apollo_compiler::ast::Document::parse(text.as_str(), "input.graphql") {
                Ok(d) => d,
                Err(e) => e.partial,
            };
            let mut defs: Vec<String> = doc.definitions.iter().map(|d| d.to_string()).collect();
            // only if the re-serialised text still shows the violation
            let mut c = best.clone();
            c.input = Input::Text(defs.join("\n"));
            if defs.len() > 1 && same(&c, &mut steps) {
                best = c;
                let mut chunk = defs.len() / 2;
                while chunk >= 1 {
                    let mut k = 0;
                    while k < defs.len() && defs.len() > 1 {
                        let mut cand = defs.clone();
                        let end = (k + chunk).min(cand.len());
                        cand.drain(k..end);
                        let mut c = best.clone();
                        c.input = Input::Text(cand.join("\n"));
                        if !cand.is_empty() && same(&c, &mut steps) {
                            defs = cand;
                            best = c;
                        } else {
                            k += chunk;
                        }
                        if steps > 600 {
                            break;
                        }
                    }
                    if chunk == 1 || steps > 600 {
                        break;
                    }
                    chunk /= 2;
                }
            }
        }
        if let Input::Smith(bytes) = &best.input {
            // shrink the byte string from the end
            let mut bytes = bytes.clone();
            let mut chunk = bytes.len() / 2;
            while chunk >= 1 && steps < 600 {
                if bytes.len() > chunk {
                    let cand = bytes[..bytes.len() - chunk].to_vec();
                    let mut c = best.clone();
                    c.input = Input::Smith(cand.clone());
                    if same(&c, &mut steps) {
                        bytes = cand;
                        best = c;
                        continue;
                    }
                }
                chunk /= 2;
            }
        }
        (best.to_json(), steps)
    }

    fn signature(&self, v: &Violation, _case: &J) -> String {
        super::c26::signature(v)
    }

    fn post_batch(&self, seed: u64, tier: Tier) -> Result<(J, Vec<(Violation, J)>), String> {
        let units = std::env::var("VERIF_UNITS")
            .ok()
            .and_then(|s| s.parse().ok())
            .unwrap_or_else(|| {
                corpus().len() as u64
                    + match tier {
                        Tier::Quick => 900,
                        Tier::Thorough => 6_000,
                    }
            });
        let processes = match tier {
            Tier::Quick => 4,
            Tier::Thorough => 16,
        };
        process_layer(seed, tier, units, processes)
    }

    fn rule(&self) -> String {
        "unit = one input (every .graphql file under crates/apollo-compiler/test_data, crates/apollo-parser/test_data/parser and \
         crates/apollo-smith/examples; seeded amplified documents that put 2-40 entries into every hash container the code may iterate: \
         unused/undefined variables and fragments, duplicate and undefined definitions, many implementers, fields with many conflicting arguments, \
         orphan extensions, repeated directives, input-object cycles ...; apollo-smith byte strings) driven through the real pipeline \
         (ast parse/serialise, schema build+validate, mixed, standalone, two-source builder incl. adopt_orphan_extensions / ignore_builtin_redefinitions, \
         executable validation, full introspection, smith document + with_document) under a baseline trial and 6 (quick) / 24 (thorough) \
         perturbed trials (re-keyed hash maps through the simulator-owned ahash key source; id-counter skew; heap-layout skew; fresh thread); \
         all observable stage outputs must be byte-identical. Second layer: every input also runs in 4 / 16 real processes with genuine OS keys \
         and the bundle digests are compared. Every unit is non-trivial (at least one perturbed trial); distinct = distinct input digests."
            .into()
    }

    fn assumptions(&self) -> Vec<String> {
        vec![
            "Debug renderings and the iteration order of values whose type is an unordered map (Schema::implementers_map) are not compared: the property does not promise them".into(),
            "std RandomState (apollo-smith) and the once-per-process SHARED_RANDOM cannot be keyed in-process: covered by fresh threads and by the process layer; replay of such a divergence is input-exact but key-probabilistic (re-samples up to 64 processes)".into(),
            "programmatic mutation of an unwrapped schema (the known hash-order dependence in schema/validation.rs when re-adding built-in scalars) is outside C22's quantifier (input texts) and not exercised".into(),
        ]
    }

    fn real_vs_stub(&self) -> J {
        json!({
            "real": ["apollo-parser, apollo-compiler, apollo-smith as compiled from /repo", "ahash hashing algorithm, indexmap, std HashMap"],
            "stub": ["ahash key source (vendor/ahash-sim: RandomState::new draws keys from a seeded stream when armed)", "id-counter start value (FileId::__verif_set_next)", "heap layout (ballast allocations)", "thread placement"],
        })
    }
}
