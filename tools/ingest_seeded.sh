#!/usr/bin/env bash
# Take a sub-agent's deliverable (/tmp/ag/<name>/out: patchN.diff, demo_N.rs, meta.json), confirm each change
# independently (tools/confirm_seeded.sh, scratch worktree), and if confirmed store it as /verif/seeded/<ID>/.
# usage: ingest_seeded.sh <agent name, e.g. c26e> <wave description>
set -u
NAME="$1"; WAVE="${2:-third wave}"
OUT="/tmp/ag/$NAME/out"
PROP="$(echo "${NAME:0:3}" | tr a-z A-Z)"; LETTER="${NAME:3:1}"
for n in 1 2; do
  [ -f "$OUT/patch$n.diff" ] || continue
  demo="$OUT/demo_$n.rs"; [ -f "$demo" ] || demo="/tmp/ag/$NAME/crates/apollo-compiler/examples/demo_$n.rs"
  [ -f "$demo" ] || demo="/tmp/ag/$NAME/crates/apollo-smith/examples/demo_$n.rs"
  [ -f "$demo" ] || { echo "$NAME/$n: no demo"; continue; }
  ID="$PROP-$LETTER$n"
  log="$(/verif/tools/confirm_seeded.sh "$OUT/patch$n.diff" "$demo" "/tmp/wt/confirm" 2>&1)"; rc=$?
  echo "== $ID: $(echo "$log" | tail -1)"
  if [ $rc -ne 0 ]; then echo "$log" | tail -15; continue; fi
  mkdir -p "/verif/seeded/$ID"
  cp "$OUT/patch$n.diff" "/verif/seeded/$ID/patch.diff"
  cp "$demo" "/verif/seeded/$ID/demo.rs"
  python3 - "$ID" "$PROP" "$NAME" "$n" "$WAVE" "$log" <<'EOF'
import json,sys
id_,prop,name,n,wave,log=sys.argv[1:7]
try: author=json.load(open(f'/tmp/ag/{name}/out/meta.json'))
except Exception as e: author={"unreadable": str(e)}
meta={"id":id_,"property":prop,
 "origin":f"{wave}: fresh sub-agent given only the property record, a focus area for variety, and its own scratch worktree (/tmp/ag/{name}); change {n}",
 "author_meta":author,
 "confirmed_by_me":{"how":"tools/confirm_seeded.sh patch.diff demo.rs in a scratch worktree of /repo HEAD: demo without change -> exit 0; git apply; cargo test -p <touched crates> --offline -> pass; demo with change -> non-zero; revert","log":log},
 "checks_run":"see DESIGN.md section 7 for which check catches it; seeded/EXPECTED.tsv is what `./check selftest sensitivity` re-runs"}
json.dump(meta,open(f'/verif/seeded/{id_}/meta.json','w'),indent=1)
EOF
done
# /tmp/wt/confirm is kept warm between ingests; remove it with: git -C /repo worktree remove --force /tmp/wt/confirm
