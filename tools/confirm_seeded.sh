#!/usr/bin/env bash
# Confirm a seeded change independently, in a scratch worktree (never in /repo):
#   patch applies; workspace compiles; the existing tests of the touched crates pass with it;
#   the demonstration fails with it and passes without it.
# usage: confirm_seeded.sh <patch.diff> <demo.rs> [worktree]
set -u
PATCH="$(readlink -f "$1")"; DEMO="$(readlink -f "$2")"; WT="${3:-/tmp/wt/confirm}"
export CARGO_NET_OFFLINE=true
unset RUSTFLAGS
if [ ! -d "$WT" ]; then git -C /repo worktree add -q --detach "$WT" HEAD || exit 2; fi
cd "$WT" || exit 2
git checkout -q -- . ; git clean -qfd crates/*/examples >/dev/null 2>&1
export CARGO_TARGET_DIR="$WT/target"
crate=apollo-compiler
grep -q "crates/apollo-smith" "$PATCH" && crate=apollo-smith
grep -q "^use apollo_smith\|apollo_smith::" "$DEMO" && crate=apollo-smith
name="seeded_demo"
cp "$DEMO" "crates/$crate/examples/$name.rs"
echo "== demo WITHOUT the change (expect exit 0)"
cargo run -q --offline -j 8 ${CONFIRM_RELEASE:+--release} -p $crate --example $name >/tmp/confirm_demo_without.log 2>&1; without=$?
echo "   exit $without"
echo "== apply"
git apply "$PATCH" || { echo "PATCH DOES NOT APPLY"; exit 3; }
echo "== existing tests WITH the change"
tests_ok=0
for c in $(grep -o "crates/apollo-[a-z]*" "$PATCH" | sort -u | sed 's#crates/##'); do
  cargo test -q --offline -j 8 -p "$c" >/tmp/confirm_tests_$c.log 2>&1 || { tests_ok=1; echo "   tests of $c FAIL"; tail -5 /tmp/confirm_tests_$c.log; }
done
echo "   tests exit $tests_ok"
echo "== demo WITH the change (expect non-zero)"
cargo run -q --offline -j 8 ${CONFIRM_RELEASE:+--release} -p $crate --example $name >/tmp/confirm_demo_with.log 2>&1; with=$?
echo "   exit $with"
git checkout -q -- . ; rm -f "crates/$crate/examples/$name.rs"
if [ $without -eq 0 ] && [ $tests_ok -eq 0 ] && [ $with -ne 0 ]; then echo "CONFIRMED"; exit 0; else echo "NOT CONFIRMED (without=$without tests=$tests_ok with=$with)"; exit 1; fi
