//! Minimiser for `asyncsim` cases (C26, C27): shrink world faults → conforming, list lengths,
//! schedule scripts, spurious polls, variables, then selections of the document — keeping a
//! candidate only if the same violation class is reported.

use crate::exec::sim::Mode;
use crate::exec::world::outcome_is_plain;
use crate::exec::world::Hint;
use crate::exec::world::Outcome;
use crate::exec::world::Val;
use crate::exec::Case;
use apollo_compiler::ast;
use serde_json::Value as J;

pub fn minimise(case: &Case, class: &str, check: &dyn Fn(&Case) -> Option<String>) -> (Case, u64) {
    let mut best = case.clone();
    let mut steps = 0u64;
    let mut budget = 6000u32;
    let same = |c: &Case, steps: &mut u64, budget: &mut u32| -> bool {
        if *budget == 0 {
            return false;
        }
        *budget -= 1;
        *steps += 1;
        check(c).as_deref() == Some(class)
    };
    loop {
        let mut progress = false;
        // 1. schedule: drop spurious polls, empty scripts, shorten, simplify modes
        if !best.schedule.spurious.is_empty() {
            let mut c = best.clone();
            c.schedule.spurious.clear();
            if same(&c, &mut steps, &mut budget) {
                best = c;
                progress = true;
            }
        }
        let fut_keys: Vec<u32> = best.schedule.futures.keys().copied().collect();
        for k in fut_keys {
            let cur = best.schedule.futures[&k].clone();
            if cur.is_empty() {
                continue;
            }
            let mut cands = vec![vec![]];
            if cur.len() > 1 {
                cands.push(cur[..1].to_vec());
            }
            if cur.iter().any(|m| *m != Mode::Immediate) {
                cands.push(vec![Mode::Immediate; cur.len()]);
            }
            for cand in cands {
                let mut c = best.clone();
                c.schedule.futures.insert(k, cand);
                if same(&c, &mut steps, &mut budget) {
                    best = c;
                    progress = true;
                    break;
                }
            }
        }
        let st_keys: Vec<(u32, u32)> = best.schedule.streams.keys().copied().collect();
        for k in st_keys {
            let cur = best.schedule.streams[&k].clone();
            if cur.is_empty() {
                continue;
            }
            let mut cands = vec![vec![]];
            if cur.len() > 1 {
                cands.push(cur[..1].to_vec());
            }
            if cur.iter().any(|m| *m != Mode::Immediate) {
                cands.push(vec![Mode::Immediate; cur.len()]);
            }
            for cand in cands {
                let mut c = best.clone();
                c.schedule.streams.insert(k, cand);
                if same(&c, &mut steps, &mut budget) {
                    best = c;
                    progress = true;
                    break;
                }
            }
        }
        // 2. world: non-plain overrides → removed (conforming value generated), lists shortened
        let keys: Vec<String> = best.overrides.keys().cloned().collect();
        for k in keys {
            let Some(cur) = best.overrides.get(&k).cloned() else {
                continue;
            };
            if !outcome_is_plain(&cur) || matches!(cur, Ok(Val::List(..))) {
                for cand in simpler(&cur) {
                    let mut c = best.clone();
                    match cand {
                        Some(o) => {
                            c.overrides.insert(k.clone(), o);
                        }
                        None => {
                            c.overrides.remove(&k);
                        }
                    }
                    if same(&c, &mut steps, &mut budget) {
                        best = c;
                        progress = true;
                        break;
                    }
                }
            }
        }
        // 3. variables
        if let Some(obj) = best.variables.as_object().cloned() {
            for k in obj.keys() {
                let mut c = best.clone();
                c.variables.as_object_mut().unwrap().remove(k);
                if same(&c, &mut steps, &mut budget) {
                    best = c;
                    progress = true;
                }
            }
        }
        // 4. document: drop selections, then unused fragments / variables
        for cand in document_candidates(&best.document) {
            let mut c = best.clone();
            c.document = cand;
            if same(&c, &mut steps, &mut budget) {
                best = c;
                progress = true;
                break;
            }
        }
        // 5. schema: drop definitions, then fields, that the failing request does not need
        for cand in schema_candidates(&best.schema) {
            let mut c = best.clone();
            c.schema = cand;
            if same(&c, &mut steps, &mut budget) {
                best = c;
                progress = true;
                break;
            }
        }
        if !progress || budget == 0 {
            break;
        }
    }
    // drop overrides that are never consulted any more (keeps the replay file small)
    (best, steps)
}

/// Simpler replacements for an outcome, most aggressive first. `None` = remove the override.
fn simpler(o: &Outcome) -> Vec<Option<Outcome>> {
    let mut out = vec![];
    match o {
        Ok(Val::List(items, hint)) => {
            out.push(Some(Ok(Val::List(vec![], Hint::Exact))));
            if items.len() > 1 {
                out.push(Some(Ok(Val::List(items[..1].to_vec(), Hint::Exact))));
                out.push(Some(Ok(Val::List(
                    items[items.len() - 1..].to_vec(),
                    Hint::Exact,
                ))));
                // drop one item at a time
                for i in 0..items.len() {
                    let mut v = items.clone();
                    let _ = v.remove(i);
                    out.push(Some(Ok(Val::List(v, hint.clone()))));
                }
            }
            if *hint != Hint::Exact {
                out.push(Some(Ok(Val::List(items.clone(), Hint::Exact))));
            }
            // simplify items individually
            for (i, it) in items.iter().enumerate() {
                if !outcome_is_plain(it) {
                    for s in simpler(it).into_iter().flatten() {
                        let mut v = items.clone();
                        v[i] = s;
                        out.push(Some(Ok(Val::List(v, hint.clone()))));
                    }
                }
            }
        }
        Err(_) => {
            out.push(None);
            out.push(Some(Ok(Val::Leaf(J::Null))));
        }
        Ok(Val::Skip) => {
            out.push(None);
            out.push(Some(Ok(Val::Leaf(J::Null))));
        }
        Ok(_) => {
            out.push(None);
        }
    }
    out
}

/// Candidate documents with one selection removed (and then unused fragments and variables
/// pruned so that the result can still validate).
fn document_candidates(text: &str) -> Vec<String> {
    let Ok(doc) = ast::Document::parse(text, "op.graphql") else {
        return vec![];
    };
    let mut out = vec![];
    // count selections in pre-order
    fn count(sels: &[ast::Selection]) -> usize {
        sels.iter()
            .map(|s| {
                1 + match s {
                    ast::Selection::Field(f) => count(&f.selection_set),
                    ast::Selection::InlineFragment(i) => count(&i.selection_set),
                    ast::Selection::FragmentSpread(_) => 0,
                }
            })
            .sum()
    }
    fn remove_nth(sels: &mut Vec<ast::Selection>, n: &mut isize) -> bool {
        let mut i = 0;
        while i < sels.len() {
            if *n == 0 {
                if sels.len() > 1 {
                    sels.remove(i);
                    return true;
                }
                *n = -1;
                return false;
            }
            *n -= 1;
            let done = match &mut sels[i] {
                ast::Selection::Field(f) => remove_nth(&mut f.make_mut().selection_set, n),
                ast::Selection::InlineFragment(f) => remove_nth(&mut f.make_mut().selection_set, n),
                ast::Selection::FragmentSpread(_) => false,
            };
            if done {
                return true;
            }
            if *n < 0 {
                return false;
            }
            i += 1;
        }
        false
    }
    let n_defs = doc.definitions.len();
    for d in 0..n_defs {
        let total = match &doc.definitions[d] {
            ast::Definition::OperationDefinition(op) => count(&op.selection_set),
            ast::Definition::FragmentDefinition(f) => count(&f.selection_set),
            _ => 0,
        };
        for k in 0..total {
            let mut cand = doc.clone();
            let mut n = k as isize;
            let removed = match &mut cand.definitions[d] {
                ast::Definition::OperationDefinition(op) => {
                    remove_nth(&mut op.make_mut().selection_set, &mut n)
                }
                ast::Definition::FragmentDefinition(f) => {
                    remove_nth(&mut f.make_mut().selection_set, &mut n)
                }
                _ => false,
            };
            if removed {
                prune(&mut cand);
                out.push(cand.to_string());
            }
        }
    }
    // also: remove directives everywhere one at a time is covered implicitly by selection removal
    out
}

fn prune(doc: &mut ast::Document) {
    loop {
        let text = doc.to_string();
        let before = doc.definitions.len();
        // fragments never spread
        doc.definitions.retain(|d| match d {
            ast::Definition::FragmentDefinition(f) => {
                let needle = format!("...{}", f.name);
                // crude but sufficient: fragment names are F<digits>, check for a token boundary
                text.match_indices(&needle).any(|(i, _)| {
                    let rest = &text[i + needle.len()..];
                    !rest.starts_with(|c: char| c.is_ascii_alphanumeric() || c == '_')
                })
            }
            _ => true,
        });
        if doc.definitions.len() == before {
            break;
        }
    }
    // variables never used
    let text = doc.to_string();
    for d in &mut doc.definitions {
        if let ast::Definition::OperationDefinition(op) = d {
            let op = op.make_mut();
            op.variables.retain(|v| {
                let needle = format!("${}", v.name);
                // the declaration itself is one occurrence
                text.match_indices(&needle)
                    .filter(|(i, _)| {
                        let rest = &text[i + needle.len()..];
                        !rest.starts_with(|c: char| c.is_ascii_alphanumeric() || c == '_')
                    })
                    .count()
                    > 1
            });
        }
    }
}

/// Candidate schemas with one definition, or one field of an object / interface type, removed.
fn schema_candidates(text: &str) -> Vec<String> {
    let Ok(doc) = ast::Document::parse(text, "schema.graphql") else {
        return vec![];
    };
    let mut out = vec![];
    for d in 0..doc.definitions.len() {
        let mut cand = doc.clone();
        cand.definitions.remove(d);
        out.push(cand.to_string());
    }
    for d in 0..doc.definitions.len() {
        let n_fields = match &doc.definitions[d] {
            ast::Definition::ObjectTypeDefinition(t) => t.fields.len(),
            ast::Definition::InterfaceTypeDefinition(t) => t.fields.len(),
            _ => 0,
        };
        if n_fields < 2 {
            continue;
        }
        for f in 0..n_fields {
            let mut cand = doc.clone();
            match &mut cand.definitions[d] {
                ast::Definition::ObjectTypeDefinition(t) => {
                    t.make_mut().fields.remove(f);
                }
                ast::Definition::InterfaceTypeDefinition(t) => {
                    t.make_mut().fields.remove(f);
                }
                _ => {}
            }
            out.push(cand.to_string());
        }
    }
    out
}
