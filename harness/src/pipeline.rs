//! The real public pipeline of apollo-compiler / apollo-smith, reduced to *observable text*:
//! serialisations, diagnostics (`Display` + JSON, in order), introspection JSON, smith documents.
//! Never `Debug` (which legitimately prints raw file ids and may use colours).
//! Used by C31 (sequential equivalence under thread schedules) and C22 (ambient-state perturbation).

use apollo_compiler::ast;
use apollo_compiler::introspection;
use apollo_compiler::parser::Parser;
use apollo_compiler::validation::DiagnosticList;
use apollo_compiler::validation::Valid;
use apollo_compiler::ExecutableDocument;
use apollo_compiler::Schema;
use std::fmt::Write as _;

pub const INTROSPECTION_QUERY: &str =
    include_str!("/repo/crates/apollo-compiler/test_data/introspection/introspect_full_schema.graphql");

pub fn diag_bundle(errors: &DiagnosticList) -> String {
    let mut s = String::new();
    let _ = writeln!(s, "{} diagnostics", errors.len());
    let _ = write!(s, "{errors}");
    for d in errors.iter() {
        let _ = writeln!(s, "{}", serde_json::to_string(&d.to_json()).unwrap_or_default());
    }
    s
}

/// `ast::Document::parse` → `to_string` and `serialize().no_indent()`
pub fn ast_bundle(text: &str, path: &str) -> String {
    let mut s = String::new();
    match ast::Document::parse(text, path) {
        Ok(doc) => {
            let _ = writeln!(s, "AST OK\n{doc}\n--no-indent--\n{}", doc.serialize().no_indent());
        }
        Err(e) => {
            let _ = writeln!(
                s,
                "AST ERR\n{}\n--partial--\n{}",
                diag_bundle(&e.errors),
                e.partial
            );
        }
    }
    s
}

/// `Schema::parse_and_validate` → `Display`, or diagnostics
pub fn schema_bundle(text: &str, path: &str) -> (String, Option<Valid<Schema>>) {
    match Schema::parse_and_validate(text, path) {
        Ok(schema) => (format!("SCHEMA OK\n{schema}"), Some(schema)),
        Err(e) => (
            format!("SCHEMA ERR\n{}--partial--\n{}", diag_bundle(&e.errors), e.partial),
            None,
        ),
    }
}

/// Several sources into one `SchemaBuilder`
pub fn multi_source_bundle(parts: &[(&str, &str)]) -> String {
    let mut b = Schema::builder();
    for (text, path) in parts {
        b = b.parse(*text, *path);
    }
    match b.build() {
        Ok(schema) => match schema.validate() {
            Ok(v) => format!("MULTI OK\n{v}"),
            Err(e) => format!(
                "MULTI INVALID\n{}--partial--\n{}",
                diag_bundle(&e.errors),
                e.partial
            ),
        },
        Err(e) => format!(
            "MULTI BUILD ERR\n{}--partial--\n{}",
            diag_bundle(&e.errors),
            e.partial
        ),
    }
}

/// `ExecutableDocument::parse_and_validate` against a schema
pub fn exec_bundle(schema: &Valid<Schema>, text: &str, path: &str) -> String {
    match ExecutableDocument::parse_and_validate(schema, text, path) {
        Ok(doc) => format!("EXEC OK\n{doc}"),
        Err(e) => format!(
            "EXEC ERR\n{}--partial--\n{}",
            diag_bundle(&e.errors),
            e.partial
        ),
    }
}

/// Schema and executable definitions in one text
pub fn mixed_bundle(text: &str, path: &str) -> String {
    match Parser::new().parse_mixed_validate(text, path) {
        Ok((schema, doc)) => format!("MIXED OK\n{schema}\n--doc--\n{doc}"),
        Err(e) => format!("MIXED ERR\n{}", diag_bundle(&e)),
    }
}

/// Validation of an executable document without a schema
pub fn standalone_bundle(text: &str, path: &str) -> String {
    match ast::Document::parse(text, path) {
        Ok(doc) => match doc.validate_standalone_executable() {
            Ok(()) => "STANDALONE OK\n".to_string(),
            Err(e) => format!("STANDALONE ERR\n{}", diag_bundle(&e)),
        },
        Err(e) => match e.partial.validate_standalone_executable() {
            Ok(()) => "STANDALONE(partial) OK\n".to_string(),
            Err(e2) => format!("STANDALONE(partial) ERR\n{}", diag_bundle(&e2)),
        },
    }
}

/// `introspection::partial_execute` with the standard full introspection query
pub fn introspection_bundle(schema: &Valid<Schema>) -> String {
    let doc = match ExecutableDocument::parse_and_validate(schema, INTROSPECTION_QUERY, "introspection.graphql") {
        Ok(d) => d,
        Err(e) => return format!("INTROSPECTION QUERY INVALID\n{}", diag_bundle(&e.errors)),
    };
    let op = match doc.operations.get(None) {
        Ok(op) => op,
        Err(e) => return format!("INTROSPECTION NO OP {}", e.message()),
    };
    let vars = Valid::assume_valid(Default::default());
    match introspection::partial_execute(schema, &schema.implementers_map(), &doc, op, &vars) {
        Ok(resp) => format!(
            "INTROSPECTION\n{}",
            serde_json::to_string(&resp).unwrap_or_default()
        ),
        Err(e) => format!("INTROSPECTION REQUEST ERROR {}", e.message()),
    }
}
