//! C31 — file ids are unique and shared state is thread-safe.
//! Seeded interleavings of id allocation and shared-schema work at hooked synchronisation points.

use crate::core::batch::Property;
use crate::core::batch::RunReport;
use crate::core::batch::Tier;
use crate::core::batch::Violation;
use crate::core::rng::mix;
use crate::core::rng::Digest;
use crate::core::rng::Rng;
use crate::pipeline;
use crate::sched;
use crate::sched::Strategy;
use apollo_compiler::parser::FileId;
use apollo_compiler::parser::SourceSpan;
use apollo_compiler::validation::Valid;
use apollo_compiler::ExecutableDocument;
use apollo_compiler::Name;
use apollo_compiler::Schema;
use serde_json::json;
use serde_json::Value as J;
use std::collections::BTreeMap;
use std::collections::BTreeSet;
use std::fmt::Write as _;
use std::io::Write as _;
use std::process::Command;
use std::process::Stdio;
use std::sync::Arc;
use std::sync::Mutex;

pub struct C31;

const TAG: u64 = 1 << 63;

// Besides "\n" the text uses the other line terminators and separators that line/column lookups
// have to agree on whichever code path computes them: a lone carriage return (a GraphQL line
// terminator), U+2028 inside a description, a form feed inside a comment.
pub const SHARED_SCHEMA: &str = concat!(
    r#"
schema { query: Query mutation: Mutation }
directive @tag(name: String!) repeatable on OBJECT | FIELD_DEFINITION | INTERFACE
"#,
    "\"a date\u{2028}second line of the description\"\r",
    "# comment with a form feed \u{c} in it\r",
    r#"scalar Date
enum Color { RED GREEN BLUE }
input Filter { color: Color = RED, after: Date, tags: [String!] }
interface Node { id: ID! }
interface Named implements Node { id: ID! name: String }
type User implements Named & Node @tag(name: "u") { id: ID! name: String friends(first: Int = 10, filter: Filter): [User!]! pet: Pet }
type Dog implements Node { id: ID! barks: Boolean color: Color }
type Cat implements Node { id: ID! lives: Int }
union Pet = Dog | Cat
type Query { me: User node(id: ID!): Node search(text: String!, filter: Filter): [Pet] colors: [Color!]! }
type Mutation { rename(id: ID!, name: String!): User }
"#
);

pub const SCHEMAS: &[&str] = &[
    "type Query { a: Int b: [B!] } type B implements I { x: String } interface I { x: String } union U = B enum E { P Q } input In { f: Int = 3 }",
    "scalar S directive @d(a: Int = 1) on FIELD | QUERY type Query { s: S @deprecated(reason: \"r\") t(x: [In!]! = []): T } type T { q: Query } input In { s: S n: In }",
    "type Query { a: Missing b: Int b: String } type Query { c: Int } interface I { x: Nope } type T implements I & J { y: Int } union U = Int | T enum E { A A } input In { f: T }",
    "type Query { a: Int ",
    "type Query { a: Int } extend type Query { b: Int @deprecated } extend schema { mutation: M } type M { m(x: Int!): Int } extend enum E { Z } enum E { Y }",
    "type Query { f(a: Int @deprecated): Int } directive @x on QUERY directive @x on FIELD scalar Int type T { _: T! } input Loop { l: Loop! }",
];

pub const OPS: &[&str] = &[
    "{ me { id name friends(first: 3) { id pet { ... on Dog { barks } ... on Cat { lives } } } } }",
    "query Q($id: ID!, $f: Filter = {color: BLUE}) { node(id: $id) { id ... on Named { name } } search(text: \"x\", filter: $f) { __typename } }",
    "mutation M($n: String!) { rename(id: 1, name: $n) { ...F } } fragment F on User { id name }",
    "{ me { nope id(x: 1) } colors { sub } }",
    "query Q($unused: Int, $bad: Nope, $f: Filter = {color: PURPLE, zzz: 1}) { node { id } search(text: 3, filter: $f) { ...Missing } } fragment Unused on User { id } fragment Loop on User { ...Loop }",
    "query A { me { id } } query A { me { name } } { colors }",
    "{ me { friends { friends { friends { id } } } } a: colors a: me { id } }",
    "subscription { x } query { __schema { types { name } } __type(name: \"User\") { fields { name } } }",
    "query A { ...F } query B { ...F } fragment F on Query { x: me { id } x: colors y: node(id: 1) { id } y: node(id: 2) { id } }",
];

/// indices into OPS of operations that do not validate against the shared schema
pub const INVALID_OPS: &[usize] = &[3, 4, 5, 6, 8];

// Inputs on which `Type::parse` panics ("!", "") or silently ignores trailing input ("Int!!",
// "[A!]! extra") are left out on purpose: those are C01/C07 matters (not simulation targets),
// see DESIGN.md "observations outside the claimed properties".
pub const TYPES: &[&str] = &["[Int!]!", "Int", "[Int", "[[A]]", "[A!", "[[Int]", "[!]"];

// "nope id" is left out: its diagnostic points into the schema's file, which is not in the
// field set's source map, and ariadne then prints "Unable to fetch source" to stderr.
pub const FIELD_SETS: &[&str] = &["id name", "friends(first: 2) { id pet { __typename } }", "id {", "name name: id", "pet { ... on Dog { barks"];

#[derive(Clone, Debug, PartialEq)]
pub enum Task {
    Ids(u32),
    Schema(usize),
    Op(usize),
    Serialize,
    Introspect,
    Multi(usize, usize),
    Pack(u64),
    Ast(usize),
    TypeParse(usize),
    FieldSet(usize),
    /// two operation sources into one ExecutableDocument builder against the shared schema
    ExecBuilder(usize, usize),
    /// one `Parser` value reused for several parses (field sets, a type, an AST)
    Reuse(usize, usize),
    /// line/column lookups on the shared schema's source file (a per-file cache shared by all threads)
    LineCol(usize),
    /// implementers map, subtype checks and meta-field lookups on the shared schema or a local one
    ImplMap(usize),
    /// two invalid operations validated against the shared schema, their diagnostic lists merged
    /// (both ways, with one of the documents already dropped): the merged report is sorted by
    /// (file id, offset), i.e. the file parsed first comes first
    Merge(usize, usize),
    /// an operation executed against the shared schema (`resolvers::Execution`, sync or async
    /// under the single-task simulator) with a seeded resolver world that includes faults
    Exec(usize, u64),
    /// a schema derived programmatically from the shared one (same source map, one more object
    /// type implementing an interface / joining a union), validated, and an operation validated
    /// against it: what a thread did before with the shared schema must not leak into it
    Derive(usize),
    /// a document and a schema parsed under an unusual source path (a path is a label, never an
    /// identity): ids of the user's own file and definitions, collected unfiltered
    Path(usize, usize),
}

/// "built_in.graphql" is the path apollo-compiler gives its own built-in source
pub const PATHS: &[&str] = &[
    "built_in.graphql",
    "",
    "schema.graphql",
    "x/../built_in.graphql",
    "BUILT_IN.graphql",
    "shared.graphql",
];

impl Task {
    fn to_s(&self) -> String {
        match self {
            Task::Ids(n) => format!("ids:{n}"),
            Task::Schema(i) => format!("schema:{i}"),
            Task::Op(i) => format!("op:{i}"),
            Task::Serialize => "serialize".into(),
            Task::Introspect => "introspect".into(),
            Task::Multi(a, b) => format!("multi:{a}:{b}"),
            Task::Pack(raw) => format!("pack:{raw}"),
            Task::Ast(i) => format!("ast:{i}"),
            Task::TypeParse(i) => format!("type:{i}"),
            Task::FieldSet(i) => format!("fieldset:{i}"),
            Task::ExecBuilder(a, b) => format!("xb:{a}:{b}"),
            Task::Reuse(a, b) => format!("reuse:{a}:{b}"),
            Task::LineCol(k) => format!("linecol:{k}"),
            Task::ImplMap(k) => format!("implmap:{k}"),
            Task::Path(i, p) => format!("path:{i}:{p}"),
            Task::Derive(k) => format!("derive:{k}"),
            Task::Exec(i, w) => format!("exec:{i}:{w}"),
            Task::Merge(a, b) => format!("merge:{a}:{b}"),
        }
    }
    fn from_s(s: &str) -> Option<Task> {
        let parts: Vec<&str> = s.split(':').collect();
        Some(match parts.as_slice() {
            ["ids", n] => Task::Ids(n.parse().ok()?),
            ["schema", i] => Task::Schema(i.parse().ok()?),
            ["op", i] => Task::Op(i.parse().ok()?),
            ["serialize"] => Task::Serialize,
            ["introspect"] => Task::Introspect,
            ["multi", a, b] => Task::Multi(a.parse().ok()?, b.parse().ok()?),
            ["pack", r] => Task::Pack(r.parse().ok()?),
            ["ast", i] => Task::Ast(i.parse().ok()?),
            ["type", i] => Task::TypeParse(i.parse().ok()?),
            ["fieldset", i] => Task::FieldSet(i.parse().ok()?),
            ["xb", a, b] => Task::ExecBuilder(a.parse().ok()?, b.parse().ok()?),
            ["reuse", a, b] => Task::Reuse(a.parse().ok()?, b.parse().ok()?),
            ["linecol", k] => Task::LineCol(k.parse().ok()?),
            ["implmap", k] => Task::ImplMap(k.parse().ok()?),
            ["path", i, p] => Task::Path(i.parse().ok()?, p.parse().ok()?),
            ["derive", k] => Task::Derive(k.parse().ok()?),
            ["exec", i, w] => Task::Exec(i.parse().ok()?, w.parse().ok()?),
            ["merge", a, b] => Task::Merge(a.parse().ok()?, b.parse().ok()?),
            _ => return None,
        })
    }
    fn needs_shared(&self) -> bool {
        matches!(
            self,
            Task::Op(_)
                | Task::Serialize
                | Task::Introspect
                | Task::FieldSet(_)
                | Task::ExecBuilder(..)
                | Task::Reuse(..)
                | Task::LineCol(_)
                | Task::ImplMap(_)
                | Task::Derive(_)
                | Task::Exec(..)
                | Task::Merge(..)
        )
    }
}

#[derive(Clone, Debug)]
pub struct Case {
    pub next_start: u64,
    /// the run starts with `FileId::reset()` (the documented, serial, test-only use: nothing else is
    /// running yet) followed by one allocation on the driver thread; ids handed out afterwards,
    /// on whatever thread, must still be pairwise distinct
    pub reset_first: bool,
    pub cold: bool,
    pub strategy: Strategy,
    pub sched_seed: u64,
    pub switches: Vec<(u64, usize)>,
    pub threads: Vec<Vec<Task>>,
}

fn strategy_to_s(s: &Strategy) -> String {
    match s {
        Strategy::Random => "random".into(),
        Strategy::Sticky(p) => format!("sticky:{p}"),
        Strategy::Pct(d) => format!("pct:{d}"),
        Strategy::Replay => "replay".into(),
    }
}

fn strategy_from_s(s: &str) -> Strategy {
    if s == "random" {
        Strategy::Random
    } else if let Some(p) = s.strip_prefix("sticky:") {
        Strategy::Sticky(p.parse().unwrap_or(100))
    } else if let Some(d) = s.strip_prefix("pct:") {
        Strategy::Pct(d.parse().unwrap_or(1))
    } else {
        Strategy::Replay
    }
}

impl Case {
    pub fn to_json(&self) -> J {
        json!({
            "next_start": self.next_start.to_string(),
            "reset_first": self.reset_first,
            "cold": self.cold,
            "strategy": strategy_to_s(&self.strategy),
            "sched_seed": self.sched_seed.to_string(),
            "schedule": self.switches.iter().map(|(s, t)| json!([s, t])).collect::<Vec<_>>(),
            "threads": self.threads.iter().map(|t| t.iter().map(|x| x.to_s()).collect::<Vec<_>>()).collect::<Vec<_>>(),
        })
    }
    pub fn from_json(j: &J) -> Result<Case, String> {
        let mut threads = vec![];
        for t in j["threads"].as_array().ok_or("threads")? {
            let mut tasks = vec![];
            for x in t.as_array().ok_or("thread")? {
                tasks.push(Task::from_s(x.as_str().ok_or("task")?).ok_or("bad task")?);
            }
            threads.push(tasks);
        }
        Ok(Case {
            next_start: j["next_start"].as_str().ok_or("next_start")?.parse().map_err(|_| "next_start")?,
            reset_first: j["reset_first"].as_bool().unwrap_or(false),
            cold: j["cold"].as_bool().unwrap_or(false),
            strategy: strategy_from_s(j["strategy"].as_str().unwrap_or("replay")),
            sched_seed: j["sched_seed"].as_str().unwrap_or("0").parse().unwrap_or(0),
            switches: j["schedule"]
                .as_array()
                .into_iter()
                .flatten()
                .filter_map(|e| Some((e[0].as_u64()?, e[1].as_u64()? as usize)))
                .collect(),
            threads,
        })
    }
}

pub fn gen_case(run_seed: u64, tier: Tier, force_cold: Option<bool>) -> Case {
    let mut wl = Rng::split(run_seed, "workload");
    let mut sr = Rng::split(run_seed, "schedule");
    let next_start = match wl.below(10) {
        0..=3 => 3,
        4..=5 => 3 + wl.below(1 << 20),
        6 => wl.below(1u64 << 62),
        // the wrap window
        _ => TAG - wl.below(9),
    };
    let cold_share = match tier {
        Tier::Quick => 3,
        Tier::Thorough => 8,
    };
    let cold = force_cold.unwrap_or_else(|| wl.below(100) < cold_share);
    let n_threads = wl.range(2, 4) as usize;
    let mut threads = vec![];
    // swarm: some runs are pure id allocation (many NEXT points, few others)
    let flavour = wl.below(4);
    for _ in 0..n_threads {
        let n_tasks = wl.range(1, if flavour == 0 { 3 } else { 5 }) as usize;
        let mut tasks = vec![];
        for _ in 0..n_tasks {
            let t = if flavour == 0 {
                // now and then more ids than any plausible per-thread reservation
                if wl.chance(1, 12) {
                    Task::Ids(*wl.pick(&[70, 130, 300]))
                } else {
                    Task::Ids(wl.range(1, 4) as u32)
                }
            } else {
                match wl.below(12) {
                    0..=2 => Task::Ids(wl.range(1, 3) as u32),
                    3..=4 => Task::Schema(wl.usize(SCHEMAS.len())),
                    5..=7 => Task::Op(wl.usize(OPS.len())),
                    8 => Task::Serialize,
                    9 => Task::Introspect,
                    10 => Task::Multi(wl.usize(SCHEMAS.len()), wl.usize(SCHEMAS.len())),
                    _ => {
                        let k = wl.below(13);
                        if k == 12 {
                            Task::Merge(wl.usize(INVALID_OPS.len()), wl.usize(INVALID_OPS.len()))
                        } else if k >= 10 {
                            Task::Exec(wl.usize(4), wl.below(1 << 20))
                        } else if k == 9 {
                            Task::Derive(wl.usize(8))
                        } else if k == 8 {
                            Task::Path(wl.usize(OPS.len().max(SCHEMAS.len())), wl.usize(PATHS.len()))
                        } else if k == 7 {
                            Task::ImplMap(wl.usize(SCHEMAS.len() + 1))
                        } else if k == 5 {
                            Task::Reuse(wl.usize(FIELD_SETS.len()), wl.usize(FIELD_SETS.len()))
                        } else if k == 6 {
                            Task::LineCol(wl.usize(4))
                        } else if k == 4 {
                            Task::ExecBuilder(wl.usize(OPS.len()), wl.usize(OPS.len()))
                        } else if k == 0 {
                            Task::Ast(wl.usize(OPS.len()))
                        } else if k == 1 {
                            Task::TypeParse(wl.usize(TYPES.len()))
                        } else if k == 2 {
                            Task::FieldSet(wl.usize(FIELD_SETS.len()))
                        } else {
                            Task::Pack(match wl.below(5) {
                                4 => 0, // the boundary sweep
                                0 => TAG - 1 - wl.below(4),
                                1 => 1 + wl.below(8),
                                2 => (1u64 << 62) + wl.below(3),
                                _ => 1 + wl.below(TAG - 1),
                            })
                        }
                    }
                }
            };
            tasks.push(t);
        }
        threads.push(tasks);
    }
    let strategy = match sr.below(8) {
        0..=2 => Strategy::Random,
        3 => Strategy::Sticky(50),
        4 => Strategy::Sticky(300),
        5 => Strategy::Pct(1),
        6 => Strategy::Pct(2),
        _ => Strategy::Pct(3),
    };
    Case {
        next_start,
        reset_first: next_start == 3 && sr.chance(1, 3),
        cold,
        strategy,
        sched_seed: sr.next_u64(),
        switches: vec![],
        threads,
    }
}

#[derive(Clone, Debug)]
struct TaskResult {
    output: String,
    ids: Vec<u64>,
}

fn source_ids(sources: &apollo_compiler::parser::SourceMap, exclude: &BTreeSet<u64>) -> Vec<u64> {
    sources
        .keys()
        .map(|id| id.__verif_raw())
        .filter(|raw| *raw != 1 && !exclude.contains(raw))
        .collect()
}

fn run_task(task: &Task, shared: Option<&Arc<Valid<Schema>>>, shared_ids: &BTreeSet<u64>) -> TaskResult {
    let none = BTreeSet::new();
    match task {
        Task::Ids(n) => {
            let ids: Vec<u64> = (0..*n).map(|_| FileId::new().__verif_raw()).collect();
            TaskResult {
                output: format!("{n} ids"),
                ids,
            }
        }
        Task::Schema(i) => match Schema::parse_and_validate(SCHEMAS[*i], format!("schema{i}.graphql")) {
            Ok(schema) => TaskResult {
                output: format!("SCHEMA OK\n{schema}"),
                ids: source_ids(&schema.sources, &none),
            },
            Err(e) => TaskResult {
                output: format!(
                    "SCHEMA ERR\n{}--partial--\n{}",
                    pipeline::diag_bundle(&e.errors),
                    e.partial
                ),
                ids: source_ids(&e.partial.sources, &none),
            },
        },
        Task::Op(i) => {
            let schema = shared.expect("shared schema");
            match ExecutableDocument::parse_and_validate(schema, OPS[*i], format!("op{i}.graphql")) {
                Ok(doc) => TaskResult {
                    output: format!("EXEC OK\n{doc}"),
                    ids: source_ids(&doc.sources, shared_ids),
                },
                Err(e) => TaskResult {
                    output: format!(
                        "EXEC ERR\n{}--partial--\n{}",
                        pipeline::diag_bundle(&e.errors),
                        e.partial
                    ),
                    ids: source_ids(&e.partial.sources, shared_ids),
                },
            }
        }
        Task::Serialize => TaskResult {
            output: shared.expect("shared schema").to_string(),
            ids: vec![],
        },
        Task::Introspect => TaskResult {
            output: pipeline::introspection_bundle(shared.expect("shared schema")),
            ids: vec![],
        },
        Task::Multi(a, b) => TaskResult {
            output: pipeline::multi_source_bundle(&[(SCHEMAS[*a], "a.graphql"), (SCHEMAS[*b], "b.graphql")]),
            ids: vec![],
        },
        Task::Ast(i) => TaskResult {
            output: pipeline::ast_bundle(OPS[*i], "ast.graphql"),
            ids: vec![],
        },
        Task::Merge(a, b) => {
            use apollo_compiler::diagnostic::ToCliReport as _;
            let schema = shared.expect("shared schema");
            let mut out = String::new();
            let mut ids = vec![];
            let mut lists = vec![];
            // both documents are parsed (and get their ids) before anything is validated
            let docs: Vec<_> = [(*a, "merge_one.graphql"), (*b, "merge_two.graphql")]
                .into_iter()
                .map(|(i, path)| {
                    let text = OPS[INVALID_OPS[i % INVALID_OPS.len()]];
                    match ExecutableDocument::parse(schema, text, path) {
                        Ok(d) => d,
                        Err(e) => e.partial,
                    }
                })
                .collect();
            for d in docs {
                ids.extend(source_ids(&d.sources, shared_ids));
                match d.validate(schema) {
                    Ok(_) => out.push_str("unexpectedly valid\n"),
                    Err(e) => lists.push((e.errors, Some(e.partial))),
                }
            }
            if lists.len() == 2 {
                let (second, second_doc) = lists.pop().unwrap();
                let (first, _first_doc) = lists.pop().unwrap();
                // the second document is gone by the time the lists are merged, the first is not
                drop(second_doc);
                for which in 0..2 {
                    let (mut into, from) = if which == 0 {
                        (first.clone(), second.clone())
                    } else {
                        (second.clone(), first.clone())
                    };
                    into.merge(from);
                    let keys: Vec<(u64, usize)> = into
                        .iter()
                        .filter_map(|d| d.error.location())
                        .map(|l| (l.file_id().__verif_raw(), l.offset()))
                        .collect();
                    let monotone = ids.windows(2).all(|w| w[0] < w[1]);
                    if monotone && keys.windows(2).any(|w| w[0] > w[1]) {
                        let _ = writeln!(out, "MERGED REPORT NOT SORTED BY (file id, offset): {keys:?}");
                    }
                    let _ = writeln!(out, "merged {which}: {}", pipeline::diag_bundle(&into));
                }
            }
            TaskResult { output: out, ids }
        }
        Task::Exec(i, w) => {
            let schema = shared.expect("shared schema");
            let text = OPS[*i % OPS.len()];
            let output = match ExecutableDocument::parse_and_validate(schema, text, format!("exec{i}.graphql")) {
                Err(_) => "EXEC: document invalid".to_string(),
                Ok(doc) => {
                    let ids = source_ids(&doc.sources, shared_ids);
                    let parsed = crate::exec::Parsed {
                        schema: Valid::<Schema>::clone(schema),
                        doc,
                    };
                    let case = crate::exec::Case {
                        schema: String::new(),
                        document: text.to_string(),
                        operation_name: None,
                        variables: json!({"id": "7", "n": "x"}),
                        introspection: w % 3 == 0,
                        world_seed: *w,
                        fault_permille: 80,
                        fault_mask: u32::MAX,
                        list_scale: 0,
                        overrides: BTreeMap::new(),
                        schedule: crate::exec::sim::Schedule {
                            seed: *w,
                            max_pending: 2,
                            pending_permille: 500,
                            spurious_permille: 50,
                            strict_wakers: w % 2 == 0,
                            ..Default::default()
                        },
                    };
                    let run = if w % 2 == 0 {
                        crate::exec::run_async(&case, &parsed, false)
                    } else {
                        crate::exec::run_sync(&case, &parsed, false)
                    };
                    let text = match run {
                        Ok(r) => format!(
                            "EXEC {} {:?} calls {}",
                            r.end,
                            r.response.map(|j| j.to_string()),
                            r.calls.len()
                        ),
                        Err(v) => format!("EXEC VIOLATION {} {}", v.class, v.detail),
                    };
                    return TaskResult { output: text, ids };
                }
            };
            TaskResult { output, ids: vec![] }
        }
        Task::Derive(k) => {
            use apollo_compiler::name;
            use apollo_compiler::schema::ExtendedType;
            let base = shared.expect("shared schema");
            let mut schema: Schema = Schema::clone(base);
            let k = &(*k);
            let iface = if k % 2 == 0 { name!("Node") } else { name!("Named") };
            let mut obj = apollo_compiler::schema::ObjectType {
                description: None,
                name: name!("Bird"),
                implements_interfaces: Default::default(),
                directives: Default::default(),
                fields: Default::default(),
            };
            obj.implements_interfaces.insert(name!("Node").into());
            if k % 2 == 1 {
                obj.implements_interfaces.insert(iface.clone().into());
            }
            let field = |n: Name, ty: apollo_compiler::ast::Type| apollo_compiler::schema::FieldDefinition {
                description: None,
                name: n,
                arguments: vec![],
                ty,
                directives: Default::default(),
            };
            obj.fields.insert(name!("id"), field(name!("id"), apollo_compiler::ty!(ID!)).into());
            obj.fields.insert(name!("name"), field(name!("name"), apollo_compiler::ty!(String)).into());
            obj.fields.insert(name!("wings"), field(name!("wings"), apollo_compiler::ty!(Int)).into());
            schema.types.insert(name!("Bird"), ExtendedType::Object(obj.into()));
            if (k / 2) % 2 == 1 {
                if let Some(ExtendedType::Union(u)) = schema.types.get_mut("Pet") {
                    u.make_mut().members.insert(name!("Bird").into());
                }
            }
            let mut out = String::new();
            // k >= 4: the caller vouches for the modified schema instead of re-validating it
            let validated = if *k >= 4 {
                Ok(Valid::assume_valid(schema))
            } else {
                schema.validate()
            };
            // the same schema built from text, for comparison: whatever the shared schema has
            // cached about itself must not show in the derived one
            let scratch_text = format!(
                "{SHARED_SCHEMA}\ntype Bird implements Node{} {{ id: ID! name: String wings: Int }}\n{}",
                if k % 2 == 1 { " & Named" } else { "" },
                if (k / 2) % 2 == 1 { "extend union Pet = Bird\n" } else { "" }
            );
            match validated {
                Ok(valid) => {
                    if let Ok(scratch) = Schema::parse_and_validate(&scratch_text, "shared.graphql") {
                        let op = "{ node(id: 1) { ... on Bird { wings } ... on Named { name ... on Bird { id } } } me { pet { ... on Bird { wings } } } search(text: \"x\") { ... on Bird { id } } }";
                        let a = (pipeline::exec_bundle(&valid, op, "derived_op.graphql"), pipeline::introspection_bundle(&valid));
                        let b = (pipeline::exec_bundle(&scratch, op, "derived_op.graphql"), pipeline::introspection_bundle(&scratch));
                        if a != b {
                            let (x, y) = if a.0 != b.0 { (&a.0, &b.0) } else { (&a.1, &b.1) };
                            let at = x.bytes().zip(y.bytes()).position(|(p, q)| p != q).unwrap_or(x.len().min(y.len()));
                            let cut = |t: &str| -> String {
                                let lo = at.saturating_sub(60);
                                let hi = (at + 60).min(t.len());
                                String::from_utf8_lossy(&t.as_bytes()[lo.min(hi)..hi]).replace('\n', " ")
                            };
                            let _ = writeln!(
                                out,
                                "DERIVED SCHEMA BEHAVES UNLIKE THE SAME SCHEMA BUILT FROM TEXT at byte {at}: `{}` vs `{}`",
                                cut(x),
                                cut(y)
                            );
                        }
                    }
                    let _ = writeln!(out, "DERIVED OK");
                    let op = "{ node(id: 1) { ... on Bird { wings } ... on Named { name ... on Bird { id } } } me { pet { ... on Bird { wings } } } search(text: \"x\") { ... on Bird { id } } }";
                    out.push_str(&pipeline::exec_bundle(&valid, op, "derived_op.graphql"));
                    out.push_str(&pipeline::introspection_bundle(&valid));
                }
                Err(e) => {
                    let _ = writeln!(out, "DERIVED INVALID\n{}", pipeline::diag_bundle(&e.errors));
                }
            }
            TaskResult { output: out, ids: vec![] }
        }
        Task::Path(i, p) => {
            let path = PATHS[*p % PATHS.len()];
            let mut ids: Vec<u64> = vec![];
            let mut out = String::new();
            // an AST document: its one source is the user's file
            let doc = match apollo_compiler::ast::Document::parse(OPS[*i % OPS.len()], path) {
                Ok(d) => d,
                Err(e) => e.partial,
            };
            let keys: Vec<u64> = doc.sources.keys().map(|id| id.__verif_raw()).collect();
            let def_ids: BTreeSet<u64> = doc
                .definitions
                .iter()
                .filter_map(|d| d.location())
                .map(|l| l.file_id().__verif_raw())
                .collect();
            let _ = writeln!(
                out,
                "ast: {} source(s), definitions located in the document's own source: {}",
                keys.len(),
                def_ids.iter().all(|d| keys.contains(d))
            );
            ids.extend(keys);
            // a schema: the user's own definitions must never be taken for built-in ones
            let schema = match Schema::parse(SCHEMAS[*i % SCHEMAS.len()], path) {
                Ok(s) => s,
                Err(e) => e.partial,
            };
            let mut own: BTreeSet<u64> = BTreeSet::new();
            for (name, ty) in &schema.types {
                let builtin_name = matches!(name.as_str(), "Int" | "Float" | "String" | "Boolean" | "ID")
                    || name.starts_with("__");
                if builtin_name {
                    continue;
                }
                if ty.is_built_in() {
                    let _ = writeln!(out, "user type {name} is reported as built-in");
                }
                if let Some(l) = ty.location() {
                    own.insert(l.file_id().__verif_raw());
                }
            }
            let _ = writeln!(out, "schema: user types located in {} file(s)\n{schema}", own.len());
            ids.extend(own);
            TaskResult { output: out, ids }
        }
        Task::TypeParse(i) => match apollo_compiler::ast::Type::parse(TYPES[*i], format!("type{i}.graphql")) {
            Ok(ty) => TaskResult {
                output: format!("TYPE OK {ty}"),
                // the names inside the returned type carry the file id of this parse
                ids: ty
                    .inner_named_type()
                    .location()
                    .map(|l| l.file_id().__verif_raw())
                    .into_iter()
                    .collect(),
            },
            Err(errors) => TaskResult {
                output: format!("TYPE ERR\n{}", pipeline::diag_bundle(&errors)),
                // the file id of a failed parse stays observable through its diagnostics
                ids: errors
                    .iter()
                    .next()
                    .map(|d| source_ids(d.sources, &none))
                    .unwrap_or_default(),
            },
        },
        Task::FieldSet(i) => {
            let schema = shared.expect("shared schema");
            match apollo_compiler::executable::FieldSet::parse_and_validate(
                schema,
                apollo_compiler::name!("User"),
                FIELD_SETS[*i],
                format!("fieldset{i}.graphql"),
            ) {
                Ok(fs) => TaskResult {
                    output: format!("FIELDSET OK {}", fs.serialize().no_indent()),
                    ids: source_ids(&fs.sources, shared_ids),
                },
                Err(e) => TaskResult {
                    output: format!("FIELDSET ERR\n{}", pipeline::diag_bundle(&e.errors)),
                    ids: source_ids(&e.partial.sources, shared_ids),
                },
            }
        }
        Task::ExecBuilder(a, b) => {
            let schema = shared.expect("shared schema");
            let parts = vec![
                (OPS[*a].to_string(), "ops_a.graphql".to_string()),
                (OPS[*b].to_string(), "ops_b.graphql".to_string()),
            ];
            let (output, ids) = pipeline::exec_builder_bundle(schema, &parts);
            TaskResult {
                output,
                ids: ids
                    .into_iter()
                    .filter(|id| *id != 1 && !shared_ids.contains(id))
                    .collect(),
            }
        }
        Task::Reuse(a, b) => {
            let schema = shared.expect("shared schema");
            let mut parser = apollo_compiler::parser::Parser::new();
            let mut output = String::new();
            let mut ids = vec![];
            for (k, i) in [*a, *b].into_iter().enumerate() {
                let (text, ok_ids) = match parser.parse_field_set(
                    schema,
                    apollo_compiler::name!("User"),
                    FIELD_SETS[i],
                    format!("key_{k}.graphql"),
                ) {
                    Ok(fs) => (
                        format!("FIELDSET OK {}", fs.serialize().no_indent()),
                        source_ids(&fs.sources, shared_ids),
                    ),
                    Err(e) => (
                        format!("FIELDSET ERR\n{}", pipeline::diag_bundle(&e.errors)),
                        source_ids(&e.partial.sources, shared_ids),
                    ),
                };
                output.push_str(&text);
                output.push('\n');
                ids.extend(ok_ids);
            }
            match parser.parse_ast(OPS[*a % OPS.len()], "reuse_ast.graphql") {
                Ok(doc) => ids.extend(source_ids(&doc.sources, &none)),
                Err(e) => ids.extend(source_ids(&e.partial.sources, &none)),
            }
            if let Ok(ty) = parser.parse_type(TYPES[*b % 2], "reuse_type.graphql") {
                ids.extend(ty.inner_named_type().location().map(|l| l.file_id().__verif_raw()));
            }
            TaskResult { output, ids }
        }
        Task::ImplMap(k) => {
            // k == 0: the shared schema; otherwise a schema of its own (a cache keyed too
            // coarsely would leak entries from one schema into another)
            let own;
            let schema: &Schema = if *k == 0 {
                shared.expect("shared schema")
            } else {
                own = match Schema::parse(SCHEMAS[*k - 1], format!("implmap{k}.graphql")) {
                    Ok(s) => s,
                    Err(e) => e.partial,
                };
                &own
            };
            let map = schema.implementers_map();
            let mut lines: Vec<String> = map
                .iter()
                .map(|(name, imp)| {
                    let mut objects: Vec<&str> = imp.objects.iter().map(|n| n.as_str()).collect();
                    let mut interfaces: Vec<&str> = imp.interfaces.iter().map(|n| n.as_str()).collect();
                    objects.sort();
                    interfaces.sort();
                    format!("{name}: objects {objects:?} interfaces {interfaces:?}")
                })
                .collect();
            lines.sort();
            let mut output = lines.join("\n");
            for (name, _) in schema.types.iter().take(12) {
                for other in ["Node", "Named", "Pet", "I", "U"] {
                    output.push_str(&format!("\nis_subtype({other}, {name}) = {}", schema.is_subtype(other, name)));
                }
                for meta in ["__typename", "__schema", "__type", "id"] {
                    let r = schema.type_field(name, meta).map(|f| f.ty.to_string());
                    output.push_str(&format!("\ntype_field({name}, {meta}) = {:?}", r.ok()));
                }
            }
            TaskResult { output, ids: vec![] }
        }
        Task::LineCol(k) => {
            let schema = shared.expect("shared schema");
            let mut output = String::new();
            // a range lookup and the two point lookups at its ends must tell the same story,
            // descriptions included (one of them holds a U+2028)
            for def in schema.types.values() {
                let spans = [def.location(), def.description().and_then(|d| d.location())];
                for span in spans.into_iter().flatten() {
                    let Some(file) = schema.sources.get(&span.file_id()) else { continue };
                    let range = span.line_column_range(&schema.sources);
                    let ends = (file.get_line_column(span.offset()), file.get_line_column(span.end_offset()));
                    if let (Some(r), (Some(a), Some(b))) = (&range, ends) {
                        if (r.start.line, r.start.column, r.end.line, r.end.column) != (a.line, a.column, b.line, b.column) {
                            output.push_str(&format!(
                                "LINE/COLUMN RANGE DISAGREES WITH POINT LOOKUPS for {}..{}: range {}:{}..{}:{} points {}:{}..{}:{}\n",
                                span.offset(), span.end_offset(), r.start.line, r.start.column, r.end.line, r.end.column, a.line, a.column, b.line, b.column
                            ));
                        }
                    }
                }
            }
            // every k-th definition's name and fields: offsets on many different lines of one file
            for (i, (name, def)) in schema.types.iter().enumerate() {
                if i % (*k + 1) != 0 {
                    continue;
                }
                if let Some(range) = name.line_column_range(&schema.sources) {
                    output.push_str(&format!("{name} {}:{}..{}:{}\n", range.start.line, range.start.column, range.end.line, range.end.column));
                }
                if let apollo_compiler::schema::ExtendedType::Object(o) = def {
                    for (fname, f) in &o.fields {
                        if let Some(range) = f.line_column_range(&schema.sources) {
                            output.push_str(&format!("  {fname} {}:{}..{}:{}\n", range.start.line, range.start.column, range.end.line, range.end.column));
                        }
                    }
                }
            }
            TaskResult { output, ids: vec![] }
        }
        Task::Pack(raw) => {
            let mut out = String::new();
            if *raw == 0 {
                // sweep: every power of two of the 63-bit id space, and its two neighbours
                for b in 0..63u32 {
                    for d in -3i64..=3 {
                        let v = (1u64 << b).wrapping_add(d as u64);
                        if v >= 1 && v < TAG {
                            pack_probe(v, &mut out);
                        }
                    }
                }
                // ids whose low 32 / 16 / 8 bits look like one of the small reserved ids (or
                // zero) while the id as a whole is large: representations split in halves
                for width in [8u32, 16, 32, 48] {
                    for high in [1u64, 2, 3, 0x7f, (1 << (62 - width)) + 1, (1 << (63 - width)) - 1] {
                        for low in 0u64..=4 {
                            let v = (high << width) | low;
                            if v >= 1 && v < TAG {
                                pack_probe(v, &mut out);
                            }
                        }
                    }
                }
            } else {
                pack_probe(*raw, &mut out);
            }
            TaskResult {
                output: out,
                ids: vec![],
            }
        }
    }
}

/// Pack / unpack, recompose, ordering and the public path through a located name, for one raw id
fn pack_probe(raw: u64, out: &mut String) {
    let raw = &raw;
    if let Some(id) = FileId::__verif_from_raw(*raw) {
                for tag in [false, true] {
                    let (t2, id2) = FileId::__verif_pack_roundtrip(tag, id);
                    if t2 != tag || id2 != id {
                        out.push_str(&format!(
                            "PACK MISMATCH tag={tag} id={raw}: got tag={t2} id={}\n",
                            id2.__verif_raw()
                        ));
                    }
                }
                // recompose keeps the file id when both ends are in the same file, and picks one
                // of the two when they are not
                let a = SourceSpan::__verif_new(id, 2, 5);
                let b = SourceSpan::__verif_new(id, 9, 12);
                match SourceSpan::recompose(Some(a), Some(b)) {
                    Some(r) if r.file_id() == id && r.offset() == 2 && r.end_offset() == 12 => {}
                    other => out.push_str(&format!(
                        "RECOMPOSE MISMATCH id={raw}: {:?}\n",
                        other.map(|r| (r.file_id().__verif_raw(), r.offset(), r.end_offset()))
                    )),
                }
                let other = SourceSpan::__verif_new(FileId::BUILT_IN, 1, 3);
                if *raw != 1 {
                    match SourceSpan::recompose(Some(a), Some(other)) {
                        Some(r) if r.file_id() == id || r.file_id() == FileId::BUILT_IN => {}
                        bad => out.push_str(&format!("RECOMPOSE MISMATCH across files id={raw}: {:?}\n", bad.map(|r| r.file_id().__verif_raw()))),
                    }
                }
                if SourceSpan::recompose(None, Some(a)).map(|r| r.file_id()) != Some(id)
                    || SourceSpan::recompose(Some(a), None).map(|r| r.file_id()) != Some(id)
                {
                    out.push_str(&format!("RECOMPOSE MISMATCH single id={raw}\n"));
                }
                // ordering and Debug of ids follow the integer value
                if let Some(next) = FileId::__verif_from_raw(raw.wrapping_add(1)) {
                    if !(id < next) || format!("{id:?}") != raw.to_string() {
                        out.push_str(&format!("ID ORDER/DEBUG MISMATCH id={raw}\n"));
                    }
                }
                // the public path: a name carrying a location in that file
                let heap = Name::new("abc").unwrap().with_location(SourceSpan::__verif_new(id, 5, 8));
                let stat = Name::new_static("xyz")
                    .unwrap()
                    .with_location(SourceSpan::__verif_new(id, 0, 3));
                for (n, is_static) in [(&heap, false), (&stat, true)] {
                    let loc = n.location();
                    if *raw == 2 {
                        // FileId::NONE means "no location" by design
                        continue;
                    }
                    if loc.map(|l| l.file_id()) != Some(id) || n.as_static_str().is_some() != is_static {
                        out.push_str(&format!(
                            "NAME LOCATION MISMATCH id={raw} static={is_static}: location {:?} as_static {:?}\n",
                            loc.map(|l| l.file_id().__verif_raw()),
                            n.as_static_str()
                        ));
                    }
                }
            }
}

static WARM: std::sync::Once = std::sync::Once::new();

/// Fixed warm-up: initialise every lazy static the same way in every worker process
pub fn warm_up() {
    WARM.call_once(|| {
        // the once-per-process statics initialised here get simulator-owned hash keys too
        ahash::sim::set_stream(Some(0xC31_57A7));
        let (_, schema) = pipeline::schema_bundle(SHARED_SCHEMA, "warm.graphql");
        let schema = schema.expect("shared schema is valid");
        for op in OPS {
            let _ = pipeline::exec_bundle(&schema, op, "warm_op.graphql");
        }
        for s in SCHEMAS {
            let _ = pipeline::schema_bundle(s, "warm_schema.graphql");
        }
        let _ = pipeline::introspection_bundle(&schema);
        let _ = pipeline::standalone_bundle(OPS[4], "warm_standalone.graphql");
        ahash::sim::set_stream(None);
    });
}

pub struct CaseResult {
    pub violation: Option<Violation>,
    pub counters: Vec<(String, u64)>,
    pub interleaving: u64,
    pub event_digest: u64,
    pub switches: Vec<(u64, usize)>,
    pub n_switches: u64,
}

impl CaseResult {
    fn to_json(&self) -> J {
        json!({
            "violation": self.violation.as_ref().map(|v| json!({"class": v.class, "detail": v.detail})),
            "counters": self.counters.iter().map(|(k, v)| json!([k, v])).collect::<Vec<_>>(),
            "interleaving": self.interleaving.to_string(),
            "event_digest": self.event_digest.to_string(),
            "switches": self.switches.iter().map(|(s, t)| json!([s, t])).collect::<Vec<_>>(),
            "n_switches": self.n_switches,
        })
    }
    fn from_json(j: &J) -> Option<CaseResult> {
        Some(CaseResult {
            violation: j["violation"].as_object().map(|v| Violation {
                class: v["class"].as_str().unwrap_or("").to_string(),
                detail: v["detail"].as_str().unwrap_or("").to_string(),
            }),
            counters: j["counters"]
                .as_array()?
                .iter()
                .filter_map(|e| Some((e[0].as_str()?.to_string(), e[1].as_u64()?)))
                .collect(),
            interleaving: j["interleaving"].as_str()?.parse().ok()?,
            event_digest: j["event_digest"].as_str()?.parse().ok()?,
            switches: j["switches"]
                .as_array()?
                .iter()
                .filter_map(|e| Some((e[0].as_u64()?, e[1].as_u64()? as usize)))
                .collect(),
            n_switches: j["n_switches"].as_u64()?,
        })
    }
}

/// Execute a case in this process. For `cold` cases the caller must guarantee that nothing in
/// this process has touched apollo-compiler yet.
pub fn exec_case_here(case: &Case) -> CaseResult {
    // a panic outside the simulated threads (building the shared schema, the sequential
    // reference executions) is a finding about the code under test, not a harness error
    // on a thread of its own: the driver side of a case (building the shared schema, the
    // reference executions' bookkeeping) must not inherit thread-local state from earlier cases
    let run = std::thread::scope(|sc| {
        std::thread::Builder::new()
            .stack_size(32 << 20)
            .spawn_scoped(sc, || {
                // the panic message is kept in a thread-local of the panicking thread
                std::panic::catch_unwind(|| exec_case_inner(case)).map_err(|_| crate::exec::take_last_panic())
            })
            .expect("spawn case thread")
            .join()
            .unwrap_or_else(|_| Err("case thread panicked outside catch_unwind".to_string()))
    });
    match run {
        Ok(r) => r,
        Err(panic_message) => CaseResult {
            violation: Some(Violation {
                class: "panic".into(),
                detail: format!("outside the simulated threads: {panic_message}"),
            }),
            counters: vec![],
            interleaving: 0,
            event_digest: 0,
            switches: case.switches.clone(),
            n_switches: 0,
        },
    }
}

fn exec_case_inner(case: &Case) -> CaseResult {
    apollo_compiler::verif::set_switch_hook(Some(sched::hook));
    if !case.cold {
        warm_up();
    }
    FileId::__verif_set_next(case.next_start);
    // every RandomState the code under test creates gets keys that are a function of the case
    ahash::sim::set_stream(Some(mix(&[case.sched_seed, 0x4A5E])));
    let shared_slot: Arc<Mutex<Option<Arc<Valid<Schema>>>>> = Arc::new(Mutex::new(None));
    let shared_ids: Arc<Mutex<BTreeSet<u64>>> = Arc::new(Mutex::new(BTreeSet::new()));
    let all_ids: Arc<Mutex<Vec<u64>>> = Arc::new(Mutex::new(vec![]));
    if case.reset_first {
        FileId::reset();
        all_ids.lock().unwrap().push(FileId::new().__verif_raw());
    }
    let make_shared = {
        let shared_slot = shared_slot.clone();
        let shared_ids = shared_ids.clone();
        let all_ids = all_ids.clone();
        move || {
            let schema = Schema::parse_and_validate(SHARED_SCHEMA, "shared.graphql")
                .expect("shared schema is valid");
            let ids = source_ids(&schema.sources, &BTreeSet::new());
            all_ids.lock().unwrap().extend(ids.iter().copied());
            shared_ids.lock().unwrap().extend(ids);
            *shared_slot.lock().unwrap() = Some(Arc::new(schema));
        }
    };
    let needs_shared = case.threads.iter().flatten().any(|t| t.needs_shared());
    if !case.cold && needs_shared {
        make_shared();
    }
    let results: Arc<Mutex<BTreeMap<(usize, usize), TaskResult>>> = Arc::new(Mutex::new(BTreeMap::new()));
    let mut bodies: Vec<sched::Body> = vec![];
    let make_shared = Arc::new(make_shared);
    for (tid, tasks) in case.threads.iter().cloned().enumerate() {
        let shared_slot = shared_slot.clone();
        let shared_ids = shared_ids.clone();
        let results = results.clone();
        let all_ids = all_ids.clone();
        let cold = case.cold;
        let make_shared = make_shared.clone();
        bodies.push(Box::new(move |ctx: &sched::Ctx| {
            if cold && needs_shared && tid == 0 {
                // in a cold run the shared schema is built inside the simulation, by thread 0,
                // while the other threads do their own cold initialisations
                make_shared();
                ctx.set_flag(0);
            }
            for (k, task) in tasks.iter().enumerate() {
                ctx.point("task");
                if task.needs_shared() && cold {
                    ctx.wait_flag(0);
                }
                let shared = shared_slot.lock().unwrap().clone();
                let sids = shared_ids.lock().unwrap().clone();
                let r = run_task(task, shared.as_ref(), &sids);
                all_ids.lock().unwrap().extend(r.ids.iter().copied());
                results.lock().unwrap().insert((tid, k), r);
            }
        }));
    }
    // observer: sample the counter at every point
    let wrapped = Arc::new(Mutex::new((false, case.next_start)));
    let observer: sched::Observer = {
        let wrapped = wrapped.clone();
        Box::new(move |_site, _tid| {
            let now = FileId::__verif_peek_next();
            let mut w = wrapped.lock().unwrap();
            if now >= TAG || now < w.1 {
                w.0 = true;
            }
            w.1 = now;
            None
        })
    };
    let n_tasks: u64 = case.threads.iter().map(|t| t.len() as u64).sum();
    let cfg = sched::Config {
        strategy: case.strategy.clone(),
        seed: case.sched_seed,
        switches: case.switches.clone(),
        step_cap: 200_000,
        expected_points: 8 * n_tasks + 8,
    };
    let out = sched::run(cfg, bodies, 1, Some(observer));
    {
        let now = FileId::__verif_peek_next();
        let mut w = wrapped.lock().unwrap();
        if now >= TAG || now < w.1 {
            w.0 = true;
        }
    }
    let wrapped = wrapped.lock().unwrap().0;
    let mut violation: Option<Violation> = out.problems.first().map(|(c, d)| Violation {
        class: c.clone(),
        detail: d.clone(),
    });
    let ids = all_ids.lock().unwrap().clone();
    let mut viol = |class: &str, detail: String| {
        if violation.is_none() {
            violation = Some(Violation {
                class: class.into(),
                detail,
            });
        }
    };
    // (a) reserved values and the tag bit, in all runs
    for id in &ids {
        if *id == 0 || *id & TAG != 0 {
            viol("id_invalid", format!("file id {id:#x} is zero or has the tag bit set"));
        } else if *id == 1 || *id == 2 {
            viol(
                "id_reserved",
                format!("file id {id} handed out; 1 is BUILT_IN and 2 is the no-location id"),
            );
        }
    }
    // (b) pairwise distinct unless the counter wrapped
    if !wrapped {
        let mut seen = BTreeSet::new();
        for id in &ids {
            if !seen.insert(*id) {
                viol(
                    "duplicate_file_id",
                    format!(
                        "file id {id} handed out twice without a counter wrap (start {}, {} ids)",
                        case.next_start,
                        ids.len()
                    ),
                );
                break;
            }
        }
    }
    // (c) pack round trip on every id seen
    for id in &ids {
        if let Some(fid) = FileId::__verif_from_raw(*id) {
            for tag in [false, true] {
                if FileId::__verif_pack_roundtrip(tag, fid) != (tag, fid) {
                    viol("pack_roundtrip", format!("id {id} tag {tag}"));
                }
            }
        }
    }
    // (e) every task's output equals the same task executed alone, sequentially (computed after
    // the simulated run so as not to warm the lazy statics of a cold run)
    let results = results.lock().unwrap().clone();
    let shared = shared_slot.lock().unwrap().clone();
    let sids = shared_ids.lock().unwrap().clone();
    let mut log = Digest::new();
    // the reference executions must not themselves cross the counter wrap
    FileId::__verif_set_next(1 << 40);
    // After a counter wrap ids may collide (permitted by the property), and then, as the comment
    // in `FileId::new` says, "a file ID collision merely causes diagnostics to print the wrong
    // file name and source context": outputs of such a run cannot be compared with anything.
    let collision_after_wrap = wrapped && {
        let mut seen = BTreeSet::new();
        ids.iter().any(|id| !seen.insert(*id))
    };
    if out.problems.is_empty() && !collision_after_wrap {
        for (tid, tasks) in case.threads.iter().enumerate() {
            for (k, task) in tasks.iter().enumerate() {
                let Some(r) = results.get(&(tid, k)) else {
                    viol("task_missing", format!("thread {tid} task {k} produced no result"));
                    continue;
                };
                log.update_str(&r.output);
                if matches!(task, Task::Ids(_)) {
                    continue;
                }
                if matches!(task, Task::Pack(_)) {
                    if !r.output.is_empty() {
                        viol("pack_roundtrip", r.output.clone());
                    }
                    continue;
                }
                if let Some(line) = r.output.lines().find(|l| l.starts_with("LINE/COLUMN RANGE DISAGREES")) {
                    viol("linecol_inconsistent", line.to_string());
                }
                if let Some(line) = r.output.lines().find(|l| l.starts_with("DERIVED SCHEMA BEHAVES UNLIKE")) {
                    viol("derived_schema_differs_from_text_built", line.to_string());
                }
                if let Some(line) = r.output.lines().find(|l| l.starts_with("MERGED REPORT NOT SORTED")) {
                    viol("merged_diagnostics_order", line.to_string());
                }
                if wrapped && (task.needs_shared() || matches!(task, Task::Multi(..) | Task::ExecBuilder(..))) {
                    // a document validated against the shared schema carries the schema's files in
                    // its source map: after a wrap its own id may be one of theirs (the map then
                    // holds one entry for two files), which the id list cannot show
                    // diagnostics of a multi-source build are ordered by (file id, offset): after
                    // a counter wrap the second source may get the smaller id, by design
                    continue;
                }
                // on a thread of its own: "executed alone" includes not inheriting what some other
                // task left in thread-local state
                let reference = std::thread::scope(|sc| {
                    std::thread::Builder::new()
                        .stack_size(16 << 20)
                        .spawn_scoped(sc, || run_task(task, shared.as_ref(), &sids))
                        .expect("spawn reference thread")
                        .join()
                });
                let reference = match reference {
                    Ok(r) => r,
                    Err(_) => {
                        viol(
                            "panic",
                            format!("sequential execution of {} panicked: {}", task.to_s(), crate::exec::take_last_panic()),
                        );
                        continue;
                    }
                };
                if reference.output != r.output {
                    let at = reference
                        .output
                        .bytes()
                        .zip(r.output.bytes())
                        .position(|(a, b)| a != b)
                        .unwrap_or(reference.output.len().min(r.output.len()));
                    let lo = at.saturating_sub(40);
                    viol(
                        "differs_from_sequential",
                        format!(
                            "thread {tid} task {} differs from its sequential execution at byte {at}: concurrent `{}` vs sequential `{}`",
                            task.to_s(),
                            r.output.get(lo..(at + 40).min(r.output.len())).unwrap_or(""),
                            reference.output.get(lo..(at + 40).min(reference.output.len())).unwrap_or(""),
                        ),
                    );
                }
            }
        }
    }
    for id in &ids {
        log.update_u64(*id);
    }
    let mut counters: Vec<(String, u64)> = vec![];
    counters.push(("points".into(), out.steps));
    counters.push(("switches".into(), out.switches.len() as u64));
    counters.push(("switches_at_repo_hooks".into(), out.hook_switches));
    for (site, n) in &out.points_by_site {
        counters.push((format!("site.{site}"), *n));
    }
    counters.push((format!("cfg.{}", if case.cold { "cold" } else { "warm" }), 1));
    counters.push((format!("strategy.{}", strategy_to_s(&case.strategy).split(':').next().unwrap()), 1));
    if collision_after_wrap {
        counters.push(("probe.id_collision_after_wrap_outputs_not_compared".into(), 1));
    }
    if wrapped {
        counters.push(("probe.wrap_path_taken".into(), 1));
    }
    if case.next_start > TAG - 16 {
        counters.push(("cfg.start_in_wrap_window".into(), 1));
    }
    counters.push(("ids_handed_out".into(), ids.len() as u64));
    // probe: a switch happened between two NEXT accesses (two threads both inside id allocation)
    let next_switch = out
        .switches
        .iter()
        .filter(|(_, site, _, _)| site.starts_with("atomic."))
        .count() as u64;
    if next_switch > 0 {
        counters.push(("probe.switch_at_NEXT_access".into(), next_switch));
    }
    let once_switch = out
        .switches
        .iter()
        .filter(|(_, site, _, _)| site.starts_with("once:"))
        .count() as u64;
    if once_switch > 0 {
        counters.push(("probe.switch_at_lazy_static".into(), once_switch));
        if case.cold {
            counters.push(("probe.cold_init_interleaved".into(), 1));
        }
    }
    log.update_u64(out.interleaving_digest);
    CaseResult {
        violation,
        counters,
        interleaving: out.interleaving_digest,
        event_digest: log.u64(),
        switches: out.switches.iter().map(|(s, _, _, t)| (*s, *t)).collect(),
        n_switches: out.switches.len() as u64,
    }
}

/// Execute a case; cold cases get a dedicated fresh child process.
pub fn exec_case(case: &Case) -> Result<CaseResult, String> {
    if !case.cold {
        return Ok(exec_case_here(case));
    }
    let exe = std::env::current_exe().map_err(|e| e.to_string())?;
    let mut child = Command::new(exe)
        .arg("c31-case")
        .stdin(Stdio::piped())
        .stdout(Stdio::piped())
        .stderr(Stdio::inherit())
        .spawn()
        .map_err(|e| e.to_string())?;
    child
        .stdin
        .take()
        .unwrap()
        .write_all(case.to_json().to_string().as_bytes())
        .map_err(|e| e.to_string())?;
    let out = child.wait_with_output().map_err(|e| e.to_string())?;
    if !out.status.success() {
        return Err(format!("cold child exited with {:?}", out.status));
    }
    let text = String::from_utf8_lossy(&out.stdout);
    let j: J = serde_json::from_str(text.lines().last().unwrap_or("")).map_err(|e| e.to_string())?;
    CaseResult::from_json(&j).ok_or_else(|| "bad child output".to_string())
}

/// Entry point of the cold child process: reads a case from stdin, prints the result
pub fn child_main() -> i32 {
    let mut text = String::new();
    if std::io::Read::read_to_string(&mut std::io::stdin(), &mut text).is_err() {
        return 2;
    }
    let Ok(j) = serde_json::from_str::<J>(&text) else { return 2 };
    let Ok(case) = Case::from_json(&j) else { return 2 };
    let r = exec_case_here(&case);
    println!("{}", r.to_json());
    0
}

fn explicit(case: &Case, r: &CaseResult) -> Case {
    let mut c = case.clone();
    c.strategy = Strategy::Replay;
    c.switches = r.switches.clone();
    c
}

fn case_digest(case: &Case) -> u64 {
    let mut d = Digest::new();
    d.update_u64(case.next_start);
    d.update_u64(case.cold as u64);
    for t in &case.threads {
        for x in t {
            d.update_str(&x.to_s());
        }
        d.update_str("|");
    }
    d.u64()
}

impl Property for C31 {
    fn id(&self) -> &'static str {
        "C31"
    }
    fn engine(&self) -> &'static str {
        "sched"
    }
    fn level(&self) -> &'static str {
        "exploration"
    }
    fn units(&self, tier: Tier) -> u64 {
        match tier {
            Tier::Quick => 24_000,
            Tier::Thorough => 500_000,
        }
    }

    fn run_unit(&self, seed: u64, unit: u64, tier: Tier, sink: &mut dyn FnMut(RunReport)) {
        let run_seed = mix(&[seed, 31, unit]);
        let case = gen_case(run_seed, tier, None);
        let r = match exec_case(&case) {
            Ok(r) => r,
            Err(e) => {
                eprintln!("harness error: {e}");
                std::process::exit(2);
            }
        };
        let mut rep = RunReport::default();
        rep.case_digest = case_digest(&case);
        rep.schedule_digest = r.interleaving;
        rep.nontrivial = r.n_switches > 1;
        rep.event_digest = r.event_digest;
        rep.counters = r.counters.clone();
        let ex = explicit(&case, &r);
        if let Some(v) = r.violation {
            rep.violation = Some((v, ex.to_json()));
        }
        if unit < 8 {
            rep.sample = Some(ex.to_json());
        }
        sink(rep);
    }

    fn replay(&self, case: &J) -> Result<Option<Violation>, String> {
        if case.get("miri").is_some() {
            return crate::core::miri::replay(case);
        }
        let case = Case::from_json(case)?;
        Ok(exec_case(&case)?.violation)
    }

    fn post_batch(&self, seed: u64, tier: Tier) -> Result<(J, Vec<(Violation, J)>), String> {
        use crate::core::miri;
        if tier == Tier::Quick {
            // a small slice of the Miri tier: the window inside a lazy static's initialisation is
            // invisible to the baton scheduler. An even workload seed makes every thread's first
            // validation the conflict document. If Miri cannot be started at all, the quick tier
            // records that and goes on (the thorough tier treats it as a harness error).
            // workload seed 6y: shared schema, every thread's first validation is the conflict
            // document; 6y + 4: cold-schema mode (the first schema validations of the process race)
            let y = mix(&[seed, 0x4d33]) % 150_000;
            let jobs = [6 * y, 6 * y + 4]
                .into_iter()
                .map(|ws| miri::Job {
                    mode: "c31-free",
                    workload_seed: ws,
                    workload_count: 1,
                    miri_seeds: 8,
                    flags: miri::FLAGS_PARSING,
                })
                .collect();
            return match miri::run_jobs(jobs, 2) {
                Ok(r) => Ok(r),
                Err(e) => Ok((json!({"miri": format!("not run in this quick tier: {e}")}), vec![])),
            };
        }
        let base = mix(&[seed, 0x4d32]) % 1_000_000;
        let mut jobs = vec![];
        for k in 0..6 {
            jobs.push(miri::Job {
                mode: "c31-free",
                workload_seed: base + k,
                workload_count: 1,
                miri_seeds: 16,
                flags: miri::FLAGS_PARSING,
            });
        }
        let first = jobs.remove(0);
        let (mut ev, mut violations) = miri::run_jobs(vec![first], 1)?;
        let (ev2, v2) = miri::run_jobs(jobs, 1)?;
        if let (Some(a), Some(b)) = (ev["miri"].as_array_mut(), ev2["miri"].as_array()) {
            a.extend(b.iter().cloned());
        }
        violations.extend(v2);
        Ok((ev, violations))
    }

    fn minimise(&self, case: &J, class: &str) -> (J, u64) {
        let Ok(mut best) = Case::from_json(case) else {
            return (case.clone(), 0);
        };
        let mut steps = 0u64;
        let same = |c: &Case, steps: &mut u64| -> bool {
            *steps += 1;
            matches!(exec_case(c), Ok(r) if r.violation.as_ref().map(|v| v.class.as_str()) == Some(class))
        };
        // after changing threads/tasks the recorded switch steps no longer line up; re-record
        let rerecord = |c: &Case| -> Option<Case> {
            let r = exec_case(c).ok()?;
            if r.violation.as_ref().map(|v| v.class.as_str()) == Some(class) {
                Some(explicit(c, &r))
            } else {
                None
            }
        };
        loop {
            let mut progress = false;
            // drop whole threads
            let mut t = 0;
            while best.threads.len() > 1 && t < best.threads.len() {
                let mut c = best.clone();
                c.threads.remove(t);
                c.switches = c
                    .switches
                    .iter()
                    .filter(|(_, th)| *th != t)
                    .map(|(s, th)| (*s, if *th > t { th - 1 } else { *th }))
                    .collect();
                steps += 1;
                if let Some(c2) = rerecord(&c) {
                    best = c2;
                    progress = true;
                } else {
                    t += 1;
                }
            }
            // drop tasks, shrink id counts
            for t in 0..best.threads.len() {
                let mut k = 0;
                while k < best.threads[t].len() {
                    let mut c = best.clone();
                    c.threads[t].remove(k);
                    steps += 1;
                    if let Some(c2) = rerecord(&c) {
                        best = c2;
                        progress = true;
                        continue;
                    }
                    if let Task::Ids(n) = best.threads[t][k] {
                        if n > 1 {
                            let mut c = best.clone();
                            c.threads[t][k] = Task::Ids(1);
                            steps += 1;
                            if let Some(c2) = rerecord(&c) {
                                best = c2;
                                progress = true;
                            }
                        }
                    }
                    k += 1;
                }
            }
            // replace schedule choices by "stay on the current thread"
            let mut i = 0;
            while i < best.switches.len() {
                let mut c = best.clone();
                c.switches.remove(i);
                if same(&c, &mut steps) {
                    best = c;
                    progress = true;
                } else {
                    i += 1;
                }
            }
            if best.cold {
                let mut c = best.clone();
                c.cold = false;
                steps += 1;
                if let Some(c2) = rerecord(&c) {
                    best = c2;
                    progress = true;
                }
            }
            if !progress || steps > 2000 {
                break;
            }
        }
        (best.to_json(), steps)
    }

    fn signature(&self, v: &Violation, _case: &J) -> String {
        super::c26::signature(v)
    }

    fn rule(&self) -> String {
        "unit = one seeded case: start value of the id counter (INITIAL, small, random < 2^62, or the wrap window 2^63-k), \
         2-4 simulated threads each with 1-5 tasks (bare FileId::new x n; Schema::parse_and_validate of valid/invalid SDL; \
         ExecutableDocument::parse_and_validate of valid/invalid operations against one shared Valid<Schema> with diagnostics \
         rendered to Display+JSON; shared.to_string(); introspection::partial_execute; two-source SchemaBuilder; pack/unpack probes), \
         warm or cold lazy statics (cold = dedicated fresh process), run under the baton scheduler with a seeded strategy \
         (uniform random, sticky 5%/30%, PCT d=1..3); scheduling points inside every access of the counter's atomic and at every \
         lazy-static entry. Non-trivial = more than one context switch; distinct = distinct (workload digest, interleaving digest) pairs, \
         the interleaving digest hashing (site, chosen thread) at every point."
            .into()
    }

    fn assumptions(&self) -> Vec<String> {
        vec![
            "the baton scheduler is sequentially consistent and does not interleave inside a lazy static's initialiser (no-yield region: a simulated thread must not be descheduled while holding the real OnceLock); the Miri tier covers that".into(),
            "after the counter wraps (observed value >= 2^63 or a decrease) duplicates are permitted and not flagged".into(),
            "two ASTs parsed on different threads and fed to one SchemaBuilder are deliberately not compared (diagnostic order across files follows id order by design)".into(),
        ]
    }

    fn real_vs_stub(&self) -> J {
        json!({
            "real": ["apollo-compiler FileId::new/reset, TaggedFileId, parser, SchemaBuilder, validation, diagnostics rendering (ariadne), introspection - as compiled from /repo with cfg(apollo_rs_verif)"],
            "stub": ["which thread runs next (baton scheduler)", "verif::AtomicU64 newtype: a scheduling point in front of the real atomic operation"],
        })
    }
}
