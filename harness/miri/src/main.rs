//! Miri tiers of C30 and C31. Run with
//!   MIRIFLAGS="-Zmiri-many-seeds=0..N …" cargo +nightly miri run --offline -- <mode> <workload seed>
//! One Miri seed is one repeatable execution (Miri's own seeded scheduler and address choices);
//! the workload seed comes from argv. Any UB, data race, leak or model mismatch ends the process
//! with a non-zero status and a message on stderr.

#[path = "../../src/core/rng.rs"]
mod rng;

#[path = "../../src/c30ops.rs"]
mod c30ops;

use apollo_compiler::parser::FileId;
use apollo_compiler::parser::SourceSpan;
use apollo_compiler::ExecutableDocument;
use apollo_compiler::Name;
use apollo_compiler::Node;
use apollo_compiler::Schema;
use rng::Rng;
use std::sync::mpsc;
use std::sync::Arc;

fn hash_of<T: std::hash::Hash + ?Sized>(t: &T) -> u64 {
    use std::hash::Hasher as _;
    let mut h = std::collections::hash_map::DefaultHasher::new();
    t.hash(&mut h);
    h.finish()
}

fn fail(msg: String) -> ! {
    eprintln!("MIRI-TIER-VIOLATION {msg}");
    std::process::exit(17)
}

/// (i) sequential histories with the reference model, some operations executed on other threads
fn c30_history(seed: u64) {
    let mut rng = Rng::new(rng::mix(&[seed, 0x30]));
    let n = rng.range(8, 40);
    let mut pool = c30ops::Pool::new();
    let mut cfg = c30ops::GenCfg::draw(&mut rng);
    cfg.allow_clone_panic = true;
    for _ in 0..n {
        let op = c30ops::gen_op_cfg(&mut rng, &cfg);
        let r = if rng.chance(1, 4) {
            // the value crosses to another thread for this operation (Send)
            std::thread::scope(|s| s.spawn(|| pool.apply(&op).and_then(|()| pool.check())).join().unwrap())
        } else {
            pool.apply(&op).and_then(|()| pool.check())
        };
        if let Err((class, detail)) = r {
            fail(format!("class={class} after `{}`: {detail}", op.encode()));
        }
    }
    if let Err((class, detail)) = pool.finish() {
        fail(format!("class={class} at the end: {detail}"));
    }
}

/// (ii) free-running threads: Miri's scheduler interleaves inside Arc's atomics, race detector on
fn c30_free(seed: u64) {
    let mut rng = Rng::new(rng::mix(&[seed, 0x31]));
    let texts = ["a", "Query", "some_longer_field_name_0123456789"];
    let witness: Vec<Arc<str>> = texts.iter().map(|t| Arc::from(*t)).collect();
    let span = |raw: u64, start: u32, len: usize| {
        SourceSpan::__verif_new(FileId::__verif_from_raw(raw).unwrap(), start, start + len as u32)
    };
    let shared: Arc<Vec<Name>> = Arc::new(vec![
        Name::from_arc_unchecked(witness[0].clone()),
        Name::from_arc_unchecked(witness[1].clone()).with_location(span((1 << 63) - 1, 4, 5)),
        Name::new_static("Query").unwrap(),
        Name::new("x1").unwrap(),
    ]);
    let node: Node<c30ops::Tracked> = Node::new_parsed(c30ops::Tracked::new(7), span(3, 0, 3));
    let n_threads = rng.range(2, 3) as usize;
    let (txs, rxs): (Vec<_>, Vec<_>) = (0..n_threads).map(|_| mpsc::channel::<Name>()).unzip();
    let mut rxs: Vec<Option<mpsc::Receiver<Name>>> = rxs.into_iter().map(Some).collect();
    let mut handles = vec![];
    for t in 0..n_threads {
        let shared = shared.clone();
        let witness = witness.clone();
        let rx = rxs[t].take().unwrap();
        let tx_next = txs[(t + 1) % n_threads].clone();
        let mut node = node.clone();
        let mut rng = Rng::new(rng::mix(&[seed, 0x32, t as u64]));
        handles.push(std::thread::spawn(move || {
            let mut local: Vec<Name> = vec![];
            let mut arcs: Vec<Arc<str>> = vec![];
            let n_ops = rng.range(6, 14);
            for _ in 0..n_ops {
                match rng.below(12) {
                    0 | 1 => local.push(shared[rng.usize(shared.len())].clone()),
                    2 => local.push(Name::from_arc_unchecked(witness[rng.usize(3)].clone())),
                    3 => {
                        if let Some(n) = local.pop() {
                            let len = n.len();
                            local.push(n.with_location(span(3 + rng.below(4), 9, len)));
                        }
                    }
                    4 => {
                        if let Some(n) = local.last() {
                            if let Some(a) = n.to_cloned_arc() {
                                arcs.push(a);
                            }
                        }
                    }
                    5 => {
                        if let Some(n) = local.pop() {
                            let a: Arc<str> = n.into();
                            arcs.push(a);
                        }
                    }
                    6 => {
                        if let Some(n) = local.pop() {
                            // hand the name to the next thread (dropped there)
                            let _ = tx_next.send(n);
                        }
                    }
                    7 => {
                        while let Ok(n) = rx.try_recv() {
                            if !texts.contains(&n.as_str()) && n.as_str() != "x1" {
                                fail(format!("class=text_mismatch received name reads {:?}", n.as_str()));
                            }
                            local.push(n);
                        }
                    }
                    8 => {
                        // copy-on-write must never be visible to the other clones
                        let before = node.value;
                        if before != 7 && before < 1000 {
                            fail(format!("class=node_value clone reads {before}"));
                        }
                        node.make_mut().value = 1000 + t as u64;
                        // equal payloads hash equally, whatever was cached or copied on the way
                        let fresh = Node::new(c30ops::Tracked::new(1000 + t as u64));
                        if hash_of(&node) != hash_of(&fresh) || node != fresh {
                            fail(format!("class=node_eq_hash_ptr_eq a node mutated through make_mut hashes / compares unlike a fresh node with the same payload"));
                        }
                    }
                    9 => {
                        // hash a clone that may still share its allocation with the other threads'
                        let h = hash_of(&node);
                        let fresh = Node::new(c30ops::Tracked::new(node.value));
                        if h != hash_of(&fresh) {
                            fail(format!("class=node_eq_hash_ptr_eq a shared node hashes unlike a fresh node with the same payload"));
                        }
                    }
                    _ => {
                        local.pop();
                        arcs.pop();
                    }
                }
                for n in &local {
                    let s = n.as_str();
                    if !(texts.contains(&s) || s == "x1") {
                        fail(format!("class=text_mismatch name reads {s:?}"));
                    }
                }
            }
            drop(tx_next);
            // names still in the inbox are dropped with the receiver, on this thread
        }));
    }
    drop(txs);
    for h in handles {
        h.join().unwrap();
    }
    if node.value != 7 {
        fail(format!("class=node_value original node reads {} after clones were mutated", node.value));
    }
    drop(node);
    drop(shared);
    for (i, w) in witness.iter().enumerate() {
        let c = Arc::strong_count(w);
        if c != 1 {
            fail(format!("class=leak_or_double_free backing string {:?} has strong count {c} at the end", texts[i]));
        }
    }
    let live = c30ops::LIVE_PAYLOADS.load(std::sync::atomic::Ordering::SeqCst);
    if live != 0 {
        fail(format!("class=leak_or_double_free {live} node payloads alive at the end"));
    }
}

const SCHEMA: &str = "type Query {\n  me: User\n  colors: [Color!]!\n  node(id: ID!): Node\n}\ninterface Node {\n  id: ID!\n}\ntype User implements Node {\n  id: ID!\n  name: String\n}\nenum Color {\n  RED\n  GREEN\n}\n";

/// line/column of every type name and object field of the shared schema: lookups on many
/// different lines of one shared `SourceFile`
fn line_cols(schema: &apollo_compiler::validation::Valid<Schema>, rounds: usize, phase: usize) -> String {
    let mut s = String::new();
    for r in 0..rounds {
        for (i, (name, def)) in schema.types.iter().enumerate() {
            if (i + r + phase) % 2 == 0 {
                continue;
            }
            if let Some(range) = name.line_column_range(&schema.sources) {
                s.push_str(&format!("{name} {}:{}..{}:{}\n", range.start.line, range.start.column, range.end.line, range.end.column));
            }
            if let apollo_compiler::schema::ExtendedType::Object(o) = def {
                for (fname, f) in &o.fields {
                    if let Some(range) = f.line_column_range(&schema.sources) {
                        s.push_str(&format!("  {fname} {}:{}..{}:{}\n", range.start.line, range.start.column, range.end.line, range.end.column));
                    }
                }
            }
        }
    }
    s
}
const OPS: &[&str] = &[
    "query A { ...F } query B { ...F } fragment F on Query { x: me { id } x: colors y: node(id: 1) { id } y: node(id: 2) { id } }",
    "{ me { id nope } colors }",
    "query Q($u: Int) { node(id: 1) { id ... on User { name } } }",
];

fn exec_out(schema: &apollo_compiler::validation::Valid<Schema>, op: &str) -> String {
    match ExecutableDocument::parse_and_validate(schema, op, "op.graphql") {
        Ok(doc) => format!("OK {doc}"),
        Err(e) => {
            let mut s = format!("ERR {} diagnostics\n", e.errors.len());
            for d in e.errors.iter() {
                s.push_str(&d.error.to_string());
                s.push('\n');
            }
            s
        }
    }
}

/// What a thread observes of a schema it built itself: the type map (which built-in scalars were
/// kept), the serialisation, and two meta-field lookups
fn own_schema_out(text: &str) -> String {
    match Schema::parse_and_validate(text, "own.graphql") {
        Ok(schema) => {
            let names: Vec<&str> = schema.types.keys().map(|n| n.as_str()).collect();
            let meta: Vec<String> = ["__typename", "__schema", "nope"]
                .iter()
                .map(|m| format!("{:?}", schema.type_field("Query", m).map(|f| f.ty.to_string()).ok()))
                .collect();
            format!("OK types {names:?} meta {meta:?}\n{schema}")
        }
        Err(e) => {
            let mut s = format!("ERR {} diagnostics\n", e.errors.len());
            for d in e.errors.iter() {
                s.push_str(&d.error.to_string());
                s.push('\n');
            }
            s
        }
    }
}

const OWN_SCHEMAS: &[&str] = &[
    "type Query { a: Int b: [B!] } type B { x: String }",
    "type Query { f: Float } scalar S type T { i: ID! s: S }",
    "type Query { a: Missing } type T implements I { y: Int }",
];

/// C31, cold-schema mode: the first-ever *schema* validations of the process race each other
/// (the lazily initialised built-in scalar table, meta-field definitions, built-in schema)
fn c31_cold_schemas(seed: u64) {
    let mut rng = Rng::new(rng::mix(&[seed, 0x34]));
    let n_threads = rng.range(2, 3) as usize;
    let mut handles = vec![];
    for t in 0..n_threads {
        let first = rng.usize(OWN_SCHEMAS.len());
        handles.push(std::thread::spawn(move || {
            let mut outs = vec![];
            for k in 0..2 {
                let i = (first + k) % OWN_SCHEMAS.len();
                outs.push((i, own_schema_out(OWN_SCHEMAS[i])));
            }
            (outs, FileId::new().__verif_raw(), t)
        }));
    }
    let mut ids = vec![];
    let mut all = vec![];
    for h in handles {
        let (outs, id, t) = h.join().unwrap();
        ids.push(id);
        all.push((t, outs));
    }
    for (t, outs) in all {
        for (i, out) in outs {
            let reference = own_schema_out(OWN_SCHEMAS[i]);
            if reference != out {
                fail(format!("class=differs_from_sequential cold schema {i} on thread {t}: concurrent {out:?} vs sequential {reference:?}"));
            }
        }
    }
    let mut sorted = ids.clone();
    sorted.sort();
    sorted.dedup();
    if sorted.len() != ids.len() || ids.iter().any(|id| *id < 3 || *id >> 63 != 0) {
        fail(format!("class=duplicate_file_id ids {ids:?}"));
    }
}

/// C31: free-running threads, cold statics: first-ever validations race each other
fn c31_free(seed: u64) {
    if seed % 3 == 1 {
        return c31_cold_schemas(seed);
    }
    let mut rng = Rng::new(rng::mix(&[seed, 0x33]));
    let schema = Arc::new(Schema::parse_and_validate(SCHEMA, "schema.graphql").expect("valid schema"));
    let n_threads = rng.range(2, 3) as usize;
    let mut handles = vec![];
    for t in 0..n_threads {
        let schema = schema.clone();
        // half of the runs: every thread's first-ever validation is the conflict document
        let first = if seed % 2 == 0 { (OPS.len() - t % OPS.len()) % OPS.len() } else { rng.usize(OPS.len()) };
        handles.push(std::thread::spawn(move || {
            let mut ids = vec![FileId::new().__verif_raw()];
            let mut outs = vec![];
            let lc = line_cols(&schema, 2, t);
            for k in 0..2 {
                let i = (first + k + t) % OPS.len();
                outs.push((i, exec_out(&schema, OPS[i])));
                ids.push(FileId::new().__verif_raw());
            }
            (ids, outs, lc, t)
        }));
    }
    let mut all_ids = vec![];
    let mut all_outs = vec![];
    let mut all_lc = vec![];
    for h in handles {
        let (ids, outs, lc, t) = h.join().unwrap();
        all_ids.extend(ids);
        all_outs.extend(outs);
        all_lc.push((t, lc));
    }
    for (t, lc) in all_lc {
        let reference = line_cols(&schema, 2, t);
        if reference != lc {
            fail(format!("class=differs_from_sequential line/column lookups on the shared schema file, thread {t}: concurrent {lc:?} vs sequential {reference:?}"));
        }
    }
    let mut sorted = all_ids.clone();
    sorted.sort();
    sorted.dedup();
    if sorted.len() != all_ids.len() {
        fail(format!("class=duplicate_file_id ids {all_ids:?}"));
    }
    if all_ids.iter().any(|id| *id < 3 || *id >> 63 != 0) {
        fail(format!("class=id_reserved ids {all_ids:?}"));
    }
    for (i, out) in all_outs {
        let reference = exec_out(&schema, OPS[i]);
        if reference != out {
            fail(format!("class=differs_from_sequential op {i}: concurrent {out:?} vs sequential {reference:?}"));
        }
    }
}

fn main() {
    let args: Vec<String> = std::env::args().collect();
    let mode = args.get(1).map(|s| s.as_str()).unwrap_or("");
    let seed: u64 = args.get(2).and_then(|s| s.parse().ok()).unwrap_or(1);
    let count: u64 = args.get(3).and_then(|s| s.parse().ok()).unwrap_or(1);
    match mode {
        "c30-history" => {
            for k in 0..count {
                c30_history(seed + k)
            }
        }
        "c30-free" => c30_free(seed),
        "c31-free" => c31_free(seed),
        _ => {
            eprintln!("usage: verif-miri c30-history|c30-free|c31-free <seed>");
            std::process::exit(2)
        }
    }
}
