//! Seeded generation of (schema, operation document, variables) requests for the execution
//! engines (C26, C27). This is plain input generation (labelled as such in the evidence);
//! the simulation part is the resolver world and the readiness schedule.
//!
//! The generator aims at pairs that the real validator accepts; the caller discards the rest
//! and reports the discard rate.

use crate::core::rng::Rng;
use serde_json::json;
use serde_json::Value as J;
use std::collections::BTreeMap;
use std::collections::BTreeSet;
use std::fmt::Write as _;

#[derive(Clone, Debug, PartialEq)]
pub enum Ty {
    Named(String, bool),
    List(Box<Ty>, bool),
}

impl Ty {
    pub fn named(n: &str) -> Ty {
        Ty::Named(n.to_string(), false)
    }
    pub fn non_null(self) -> Ty {
        match self {
            Ty::Named(n, _) => Ty::Named(n, true),
            Ty::List(t, _) => Ty::List(t, true),
        }
    }
    pub fn list(self) -> Ty {
        Ty::List(Box::new(self), false)
    }
    pub fn is_non_null(&self) -> bool {
        match self {
            Ty::Named(_, nn) | Ty::List(_, nn) => *nn,
        }
    }
    pub fn inner_name(&self) -> &str {
        match self {
            Ty::Named(n, _) => n,
            Ty::List(t, _) => t.inner_name(),
        }
    }
    pub fn sdl(&self) -> String {
        match self {
            Ty::Named(n, nn) => format!("{n}{}", if *nn { "!" } else { "" }),
            Ty::List(t, nn) => format!("[{}]{}", t.sdl(), if *nn { "!" } else { "" }),
        }
    }
}

#[derive(Clone, Debug)]
pub struct GArg {
    pub name: String,
    pub ty: Ty,
    pub default: Option<String>,
}

#[derive(Clone, Debug)]
pub struct GField {
    pub name: String,
    pub ty: Ty,
    pub args: Vec<GArg>,
}

#[derive(Clone, Debug)]
pub struct GObject {
    pub name: String,
    pub implements: Vec<String>,
    pub fields: Vec<GField>,
}

#[derive(Clone, Debug)]
pub struct GInterface {
    pub name: String,
    pub implements: Vec<String>,
    pub fields: Vec<GField>,
}

#[derive(Clone, Debug)]
pub struct GInput {
    pub name: String,
    pub fields: Vec<GArg>,
}

#[derive(Clone, Debug, Default)]
pub struct GSchema {
    pub objects: Vec<GObject>,
    pub interfaces: Vec<GInterface>,
    pub unions: Vec<(String, Vec<String>)>,
    pub enums: Vec<(String, Vec<String>)>,
    pub scalars: Vec<String>,
    pub inputs: Vec<GInput>,
    pub query: String,
    pub mutation: Option<String>,
    pub subscription: Option<String>,
    pub explicit_schema_def: bool,
}

#[derive(Clone, Debug)]
pub struct Request {
    pub schema: String,
    pub document: String,
    pub operation_name: Option<String>,
    pub variables: J,
    pub introspection: bool,
}

const SCALARS: &[&str] = &["Int", "Float", "String", "Boolean", "ID"];

enum Kind {
    Scalar,
    Enum,
    Object,
    Interface,
    Union,
    Input,
}

impl GSchema {
    fn kind(&self, name: &str) -> Kind {
        if SCALARS.contains(&name) || self.scalars.iter().any(|s| s == name) {
            Kind::Scalar
        } else if self.enums.iter().any(|(n, _)| n == name) {
            Kind::Enum
        } else if self.objects.iter().any(|o| o.name == name) {
            Kind::Object
        } else if self.interfaces.iter().any(|o| o.name == name) {
            Kind::Interface
        } else if self.unions.iter().any(|(n, _)| n == name) {
            Kind::Union
        } else {
            Kind::Input
        }
    }

    fn is_composite(&self, name: &str) -> bool {
        matches!(
            self.kind(name),
            Kind::Object | Kind::Interface | Kind::Union
        )
    }

    /// Concrete object types that can be behind a value of composite type `name`
    pub fn possible_types(&self, name: &str) -> Vec<String> {
        match self.kind(name) {
            Kind::Object => vec![name.to_string()],
            Kind::Interface => self
                .objects
                .iter()
                .filter(|o| o.implements.iter().any(|i| i == name))
                .map(|o| o.name.clone())
                .collect(),
            Kind::Union => self
                .unions
                .iter()
                .find(|(n, _)| n == name)
                .map(|(_, m)| m.clone())
                .unwrap_or_default(),
            _ => vec![],
        }
    }

    fn fields_of(&self, name: &str) -> &[GField] {
        if let Some(o) = self.objects.iter().find(|o| o.name == name) {
            &o.fields
        } else if let Some(i) = self.interfaces.iter().find(|o| o.name == name) {
            &i.fields
        } else {
            &[]
        }
    }

    pub fn to_sdl(&self) -> String {
        let mut s = String::new();
        if self.explicit_schema_def {
            let _ = write!(s, "schema {{ query: {}", self.query);
            if let Some(m) = &self.mutation {
                let _ = write!(s, " mutation: {m}");
            }
            if let Some(m) = &self.subscription {
                let _ = write!(s, " subscription: {m}");
            }
            s.push_str(" }\n");
        }
        for sc in &self.scalars {
            let _ = writeln!(s, "scalar {sc}");
        }
        for (n, vals) in &self.enums {
            let _ = writeln!(s, "enum {n} {{ {} }}", vals.join(" "));
        }
        for inp in &self.inputs {
            let _ = write!(s, "input {} {{", inp.name);
            for f in &inp.fields {
                let _ = write!(s, " {}: {}", f.name, f.ty.sdl());
                if let Some(d) = &f.default {
                    let _ = write!(s, " = {d}");
                }
            }
            s.push_str(" }\n");
        }
        let fields = |s: &mut String, fields: &[GField]| {
            for f in fields {
                let _ = write!(s, "  {}", f.name);
                if !f.args.is_empty() {
                    s.push('(');
                    for (i, a) in f.args.iter().enumerate() {
                        if i > 0 {
                            s.push_str(", ");
                        }
                        let _ = write!(s, "{}: {}", a.name, a.ty.sdl());
                        if let Some(d) = &a.default {
                            let _ = write!(s, " = {d}");
                        }
                    }
                    s.push(')');
                }
                let _ = writeln!(s, ": {}", f.ty.sdl());
            }
        };
        for i in &self.interfaces {
            let _ = write!(s, "interface {}", i.name);
            if !i.implements.is_empty() {
                let _ = write!(s, " implements {}", i.implements.join(" & "));
            }
            s.push_str(" {\n");
            fields(&mut s, &i.fields);
            s.push_str("}\n");
        }
        for (n, members) in &self.unions {
            let _ = writeln!(s, "union {n} = {}", members.join(" | "));
        }
        for o in &self.objects {
            let _ = write!(s, "type {}", o.name);
            if !o.implements.is_empty() {
                let _ = write!(s, " implements {}", o.implements.join(" & "));
            }
            s.push_str(" {\n");
            fields(&mut s, &o.fields);
            s.push_str("}\n");
        }
        s
    }
}

/// Wrap a named output type in list / non-null layers
fn wrap_type(rng: &mut Rng, name: &str, max_depth: u32) -> Ty {
    let mut t = Ty::Named(name.to_string(), rng.chance(3, 10));
    let depth = match rng.below(10) {
        0..=4 => 0,
        5..=7 => 1,
        8 => 2,
        _ => 3,
    }
    .min(max_depth);
    for _ in 0..depth {
        t = Ty::List(Box::new(t), rng.chance(3, 10));
    }
    t
}

pub fn gen_schema(rng: &mut Rng) -> GSchema {
    let mut g = GSchema::default();
    let renamed_roots = rng.chance(1, 5);
    g.explicit_schema_def = renamed_roots || rng.chance(1, 5);
    g.query = if renamed_roots { "RootQ" } else { "Query" }.to_string();
    if rng.chance(1, 2) {
        g.mutation = Some(if renamed_roots { "RootM" } else { "Mutation" }.to_string());
    }
    if rng.chance(1, 6) {
        g.subscription = Some(if renamed_roots { "RootS" } else { "Subscription" }.to_string());
    }
    if !g.explicit_schema_def {
        // implicit schema definition: root types are found by name
    }
    if rng.chance(2, 3) {
        g.scalars.push("Blob".into());
    }
    g.enums.push((
        "Color".into(),
        vec!["RED".into(), "GREEN".into(), "BLUE".into()],
    ));
    if rng.chance(2, 3) {
        let mut fields = vec![GArg {
            name: "n".into(),
            ty: Ty::named("Int"),
            default: if rng.chance(1, 2) {
                Some("7".into())
            } else {
                None
            },
        }];
        if rng.chance(1, 2) {
            fields.push(GArg {
                name: "req".into(),
                ty: Ty::named("String").non_null(),
                default: if rng.chance(1, 2) {
                    Some("\"d\"".into())
                } else {
                    None
                },
            });
        }
        if rng.chance(1, 2) {
            fields.push(GArg {
                name: "tags".into(),
                ty: Ty::named("Color").non_null().list(),
                default: None,
            });
        }
        if rng.chance(1, 3) {
            fields.push(GArg {
                name: "more".into(),
                ty: Ty::named("Filter"),
                default: None,
            });
        }
        g.inputs.push(GInput {
            name: "Filter".into(),
            fields,
        });
    }

    let n_ifaces = rng.below(3) as usize;
    let n_objs = rng.range(1, 4) as usize;
    let obj_names: Vec<String> = (0..n_objs).map(|i| format!("T{i}")).collect();
    let iface_names: Vec<String> = (0..n_ifaces).map(|i| format!("I{i}")).collect();
    let has_union = rng.chance(1, 2);
    let mut composite: Vec<String> = obj_names.clone();
    composite.extend(iface_names.iter().cloned());
    if has_union {
        composite.push("U".into());
    }
    let mut leaf: Vec<String> = SCALARS.iter().map(|s| s.to_string()).collect();
    leaf.push("Color".into());
    leaf.extend(g.scalars.iter().cloned());

    // Global pool: a field name always has the same type and arguments wherever it appears,
    // so that selecting it under several parent types merges validly.
    let mut counter = 0usize;
    let mut new_field = |rng: &mut Rng, g: &GSchema| -> GField {
        counter += 1;
        let composite_field = rng.chance(4, 10);
        let target = if composite_field {
            rng.pick(&composite).clone()
        } else {
            rng.pick(&leaf).clone()
        };
        let ty = wrap_type(rng, &target, 3);
        let mut args = vec![];
        if rng.chance(4, 10) {
            let n_args = rng.range(1, 3);
            for k in 0..n_args {
                let (aty, default): (Ty, Option<String>) = match rng.below(14) {
                    7 => (Ty::named("Int").list().list(), None),
                    8 => (Ty::named("Int").list(), Some("[1, null]".into())),
                    9 => (Ty::named("Float"), None),
                    10 => (Ty::named("Color").list().non_null(), None),
                    11 if !g.scalars.is_empty() => (Ty::named("Blob"), None),
                    12 if !g.inputs.is_empty() => (Ty::named("Filter").non_null().list(), None),
                    13 => (Ty::named("Int").non_null(), Some("5".into())),
                    0 => (Ty::named("Int"), None),
                    1 => (Ty::named("Int").non_null(), None),
                    2 => (Ty::named("String"), Some("\"dflt\"".into())),
                    3 => (Ty::named("Color"), Some("GREEN".into())),
                    4 => (Ty::named("Int").non_null().list(), None),
                    5 if !g.inputs.is_empty() => (Ty::named("Filter"), None),
                    6 => (Ty::named("Boolean").non_null(), Some("true".into())),
                    _ => (Ty::named("ID"), None),
                };
                args.push(GArg {
                    name: format!("a{k}"),
                    ty: aty,
                    default,
                });
            }
        }
        GField {
            name: format!("f{counter}"),
            ty,
            args,
        }
    };

    for (idx, name) in iface_names.iter().enumerate() {
        let mut fields = vec![];
        let mut implements = vec![];
        // I1 may implement I0
        if idx == 1 && rng.chance(1, 2) {
            implements.push(iface_names[0].clone());
            fields.extend(g.interfaces[0].fields.iter().cloned());
        }
        for _ in 0..rng.range(1, 2) {
            fields.push(new_field(rng, &g));
        }
        g.interfaces.push(GInterface {
            name: name.clone(),
            implements,
            fields,
        });
    }
    for name in &obj_names {
        let mut implements: Vec<String> = vec![];
        let mut fields: Vec<GField> = vec![];
        for i in g.interfaces.iter().rev() {
            if rng.chance(1, 2) && !implements.contains(&i.name) {
                implements.push(i.name.clone());
                for parent in &i.implements {
                    if !implements.contains(parent) {
                        implements.push(parent.clone());
                    }
                }
            }
        }
        for iname in &implements {
            let i = g.interfaces.iter().find(|i| &i.name == iname).unwrap();
            for f in &i.fields {
                if !fields.iter().any(|x| x.name == f.name) {
                    let mut f = f.clone();
                    // covariant narrowing, sometimes
                    if rng.chance(1, 8) {
                        f.ty = f.ty.clone().non_null();
                    }
                    fields.push(f);
                }
            }
        }
        for _ in 0..rng.range(1, 3) {
            fields.push(new_field(rng, &g));
        }
        g.objects.push(GObject {
            name: name.clone(),
            implements,
            fields,
        });
    }
    // every interface needs at least one implementer for value generation; that is not a
    // validity requirement, the world handles "no possible type" by returning null/error
    if has_union {
        let mut members: Vec<String> = obj_names
            .iter()
            .filter(|_| rng.chance(2, 3))
            .cloned()
            .collect();
        if members.is_empty() {
            members.push(obj_names[0].clone());
        }
        g.unions.push(("U".into(), members));
    }
    // root types
    let mut roots = vec![g.query.clone()];
    roots.extend(g.mutation.clone());
    roots.extend(g.subscription.clone());
    for r in roots {
        let mut fields = vec![];
        for _ in 0..rng.range(2, 4) {
            let mut f = new_field(rng, &g);
            // bias root fields towards composite types so that there is something below
            if rng.chance(1, 2) {
                let target = rng.pick(&composite).clone();
                f.ty = wrap_type(rng, &target, 2);
            }
            fields.push(f);
        }
        g.objects.push(GObject {
            name: r,
            implements: vec![],
            fields,
        });
    }
    // a way back to the query root type from below the root ("viewer: Query", a mutation payload's
    // "query: Query!"): the meta-fields __schema / __type exist on that *type*, at any depth
    if rng.chance(1, 5) {
        let n = g.objects.len();
        let host = rng.usize(n);
        let q = g.query.clone();
        let ty = wrap_type(rng, &q, 1);
        g.objects[host].fields.push(GField {
            name: "back".into(),
            ty,
            args: vec![],
        });
    }
    // also let some fields be shared between objects (same name, same type)
    if g.objects.len() >= 2 && rng.chance(1, 2) {
        let f = new_field(rng, &g);
        let n = g.objects.len();
        let a = rng.usize(n);
        let b = rng.usize(n);
        g.objects[a].fields.push(f.clone());
        if a != b {
            g.objects[b].fields.push(f);
        }
    }
    g
}

struct VarDecl {
    name: &'static str,
    decl: &'static str,
    /// values that coerce successfully
    good: fn(&mut Rng) -> J,
}

const VARS: &[VarDecl] = &[
    VarDecl {
        name: "bt",
        decl: "$bt: Boolean!",
        good: |r| json!(r.chance(1, 2)),
    },
    VarDecl {
        name: "bd",
        decl: "$bd: Boolean = true",
        good: |r| json!(r.chance(1, 2)),
    },
    VarDecl {
        name: "bf",
        decl: "$bf: Boolean = false",
        good: |r| json!(r.chance(1, 2)),
    },
    VarDecl {
        name: "vi",
        decl: "$vi: Int",
        good: |r| json!(r.below(100) as i64 - 50),
    },
    VarDecl {
        name: "vn",
        decl: "$vn: Int!",
        good: |r| json!(r.below(100) as i64),
    },
    VarDecl {
        name: "vs",
        decl: "$vs: String = \"vdef\"",
        good: |r| json!(format!("s{}", r.below(5))),
    },
    VarDecl {
        name: "vc",
        decl: "$vc: Color",
        good: |r| json!(["RED", "GREEN", "BLUE"][r.usize(3)]),
    },
    VarDecl {
        name: "vl",
        decl: "$vl: [Int!]",
        good: |r| {
            if r.chance(1, 3) {
                json!(3)
            } else {
                json!([1, 2, r.below(9)])
            }
        },
    },
    VarDecl {
        name: "vf",
        decl: "$vf: Filter",
        good: |r| {
            // may or may not satisfy `req: String!` when it has no default: discards happen
            match r.below(3) {
                0 => json!({"req": "r"}),
                1 => json!({"req": "r", "n": null}),
                _ => json!({"req": "q", "n": 5, "tags": ["RED"]}),
            }
        },
    },
];

struct OpGen<'a> {
    g: &'a GSchema,
    rng: &'a mut Rng,
    used_vars: BTreeSet<&'static str>,
    used_frags: BTreeSet<usize>,
    /// fragment index → (type condition, body) ; body generated lazily, spreads only go to higher indices
    frags: Vec<(String, Option<String>)>,
    allow_vars: bool,
    budget: i32,
    /// swarm: @skip/@include on one selection in `dir_den` (0 = none in this request)
    dir_den: u64,
}

impl OpGen<'_> {
    fn bool_var(&mut self) -> String {
        let v = *self.rng.pick(&["bt", "bd", "bf"]);
        self.used_vars.insert(v);
        format!("${v}")
    }

    fn directives(&mut self) -> String {
        let mut s = String::new();
        if self.dir_den > 0 && self.rng.chance(1, self.dir_den) {
            let arg = if self.allow_vars && self.rng.chance(1, 2) {
                self.bool_var()
            } else {
                self.rng.chance(1, 2).to_string()
            };
            let _ = write!(s, " @skip(if: {arg})");
        }
        if self.dir_den > 0 && self.rng.chance(1, self.dir_den) {
            let arg = if self.allow_vars && self.rng.chance(1, 2) {
                self.bool_var()
            } else {
                self.rng.chance(2, 3).to_string()
            };
            let _ = write!(s, " @include(if: {arg})");
        }
        s
    }

    /// A literal (possibly containing variables) for an input type
    fn literal(&mut self, ty: &Ty, depth: u32, rng_variant: &mut Rng) -> String {
        let nullable = !ty.is_non_null();
        if nullable && rng_variant.chance(1, 8) {
            return "null".into();
        }
        match ty {
            Ty::List(inner, _) => {
                if rng_variant.chance(1, 4) {
                    // single value coerced to a list of one
                    self.literal(inner, depth + 1, rng_variant)
                } else {
                    let n = rng_variant.below(3);
                    let items: Vec<String> = (0..n)
                        .map(|_| self.literal(inner, depth + 1, rng_variant))
                        .collect();
                    format!("[{}]", items.join(", "))
                }
            }
            Ty::Named(name, nn) => {
                // variables
                if self.allow_vars && rng_variant.chance(1, 4) {
                    let cand: &[&'static str] = match (name.as_str(), *nn) {
                        ("Int", false) => &["vi", "vn"],
                        ("Int", true) => &["vn", "vn", "vi"],
                        ("String", false) => &["vs"],
                        ("String", true) => &["vs"],
                        ("Color", false) => &["vc"],
                        ("Boolean", _) => &["bt", "bd"],
                        ("Filter", false) => &["vf"],
                        _ => &[],
                    };
                    if !cand.is_empty() {
                        let v = *rng_variant.pick(cand);
                        if v != "vf" || !self.g.inputs.is_empty() {
                            self.used_vars.insert(v);
                            return format!("${v}");
                        }
                    }
                }
                match name.as_str() {
                    "Int" => format!("{}", rng_variant.below(200) as i64 - 100),
                    "Float" => {
                        if rng_variant.chance(1, 6) {
                            // integer literals beyond 32 bits are fine for Float, ID and custom scalars
                            format!("{}", 3_000_000_000u64 + rng_variant.below(1000))
                        } else if rng_variant.chance(1, 3) {
                            format!("{}", rng_variant.below(10))
                        } else {
                            format!("{}.5", rng_variant.below(10))
                        }
                    }
                    "String" => format!("\"s{}\"", rng_variant.below(4)),
                    "Boolean" => rng_variant.chance(1, 2).to_string(),
                    "ID" => {
                        if rng_variant.chance(1, 6) {
                            format!("{}", 12_345_678_901u64 + rng_variant.below(1000))
                        } else if rng_variant.chance(1, 2) {
                            format!("{}", rng_variant.below(50))
                        } else {
                            format!("\"id{}\"", rng_variant.below(4))
                        }
                    }
                    "Color" => (*rng_variant.pick(&["RED", "GREEN", "BLUE"])).to_string(),
                    "Blob" => (*rng_variant.pick(&["1", "\"x\"", "{a: 1, b: [true]}", "[1, 2]", "9999999999", "{big: 123456789012, e: RED}"]))
                        .to_string(),
                    "Filter" => {
                        let inp = self.g.inputs[0].clone();
                        let mut parts = vec![];
                        for f in &inp.fields {
                            let required = f.ty.is_non_null() && f.default.is_none();
                            if f.name == "more" && depth > 1 {
                                continue;
                            }
                            if required || rng_variant.chance(1, 2) {
                                let v = self.literal(&f.ty, depth + 1, rng_variant);
                                parts.push(format!("{}: {}", f.name, v));
                            }
                        }
                        format!("{{{}}}", parts.join(", "))
                    }
                    _ => "null".into(),
                }
            }
        }
    }

    fn args_for(&mut self, f: &GField, variant: u64) -> String {
        if f.args.is_empty() {
            return String::new();
        }
        // The text is a pure function of (field name, variant) plus the variable-usage side effect:
        // two selections with the same response key get identical arguments.
        let mut vr = Rng::new(crate::core::rng::mix(&[
            crate::core::rng::hash_str(&f.name),
            variant,
            0xA11A5,
        ]));
        let mut parts = vec![];
        for a in &f.args {
            let required = a.ty.is_non_null() && a.default.is_none();
            if required || vr.chance(2, 3) {
                let lit = self.literal(&a.ty, 0, &mut vr);
                parts.push(format!("{}: {}", a.name, lit));
            }
        }
        if parts.is_empty() {
            String::new()
        } else {
            format!("({})", parts.join(", "))
        }
    }

    fn selection_set(&mut self, parent: &str, depth: u32) -> String {
        let mut items: Vec<String> = vec![];
        let fields: Vec<GField> = self.g.fields_of(parent).to_vec();
        let n = self.rng.range(1, 4);
        for _ in 0..n {
            self.budget -= 1;
            let choice = self.rng.below(10);
            if fields.is_empty() || choice == 0 {
                let alias = if self.rng.chance(1, 4) { "tn: " } else { "" };
                let d = self.directives();
                items.push(format!("{alias}__typename{d}"));
            } else if choice <= 6 {
                let f = self.rng.pick(&fields).clone();
                items.push(self.field_selection(&f, depth));
            } else if choice <= 8 {
                // inline fragment
                let cond = self.overlapping_type(parent);
                let d = self.directives();
                match cond {
                    Some(c) if self.rng.chance(4, 5) => {
                        let body = self.selection_set(&c, depth + 1);
                        items.push(format!("... on {c}{d} {body}"));
                    }
                    _ => {
                        let body = self.selection_set(parent, depth + 1);
                        items.push(format!("...{d} {body}"));
                    }
                }
            } else {
                // named fragment spread
                if let Some(idx) = self.pick_fragment(parent) {
                    let d = self.directives();
                    self.used_frags.insert(idx);
                    items.push(format!("...F{idx}{d}"));
                } else {
                    items.push("__typename".into());
                }
            }
            if self.budget <= 0 {
                break;
            }
        }
        if depth > 1 && parent == self.g.query && self.rng.chance(1, 3) {
            // the query root type reached below the root: schema introspection meta-fields are
            // fields of that type here too
            let t = self.meta_template();
            items.push(t);
        }
        format!("{{ {} }}", items.join(" "))
    }

    /// one of the schema-introspection selections the reference executor models
    fn meta_template(&mut self) -> String {
        match self.rng.below(4) {
            0 => "__schema { queryType { name } }".to_string(),
            1 => {
                let n = self.g.objects.len();
                let t = self.g.objects[self.rng.usize(n)].name.clone();
                format!("__type(name: \"{t}\") {{ name kind }}")
            }
            2 => "__type(name: \"Nope\") { name }".to_string(),
            _ => "meta: __type(name: \"Color\") { kind enumValues { name } }".to_string(),
        }
    }

    fn field_selection(&mut self, f: &GField, depth: u32) -> String {
        let aliased = self.rng.chance(1, 4);
        let variant = if aliased { self.rng.range(1, 2) } else { 0 };
        let args = self.args_for(f, variant);
        let alias = if aliased {
            format!("al_{}_{}: ", f.name, variant)
        } else {
            String::new()
        };
        let d = self.directives();
        let inner = f.ty.inner_name().to_string();
        let sub = if self.g.is_composite(&inner) {
            if depth >= 4 || self.budget <= 0 {
                " { __typename }".to_string()
            } else {
                format!(" {}", self.selection_set(&inner, depth + 1))
            }
        } else {
            String::new()
        };
        format!("{alias}{}{args}{d}{sub}", f.name)
    }

    /// A composite type whose possible types intersect those of `parent`
    fn overlapping_type(&mut self, parent: &str) -> Option<String> {
        let pp: BTreeSet<String> = self.g.possible_types(parent).into_iter().collect();
        let mut cands = vec![];
        for name in self
            .g
            .objects
            .iter()
            .map(|o| &o.name)
            .chain(self.g.interfaces.iter().map(|i| &i.name))
            .chain(self.g.unions.iter().map(|(n, _)| n))
        {
            if self.g.possible_types(name).iter().any(|t| pp.contains(t)) {
                cands.push(name.clone());
            }
        }
        if cands.is_empty() {
            None
        } else {
            Some(self.rng.pick(&cands).clone())
        }
    }

    fn pick_fragment(&mut self, parent: &str) -> Option<usize> {
        let pp: BTreeSet<String> = self.g.possible_types(parent).into_iter().collect();
        let cands: Vec<usize> = self
            .frags
            .iter()
            .enumerate()
            .filter(|(_, (cond, _))| self.g.possible_types(cond).iter().any(|t| pp.contains(t)))
            .map(|(i, _)| i)
            .collect();
        if cands.is_empty() {
            None
        } else {
            Some(*self.rng.pick(&cands))
        }
    }
}

/// Generate a full request. `faulty_vars`: probability (in %) that a variable is omitted or null.
pub fn gen_request(rng: &mut Rng) -> Request {
    let g = gen_schema(rng);
    gen_request_for(rng, &g)
}

pub fn gen_request_for(rng: &mut Rng, g: &GSchema) -> Request {
    let schema = g.to_sdl();
    let op_kind = match rng.below(10) {
        0..=5 => "query",
        6..=8 if g.mutation.is_some() => "mutation",
        9 if g.subscription.is_some() => "subscription",
        _ => "query",
    };
    let root = match op_kind {
        "query" => g.query.clone(),
        "mutation" => g.mutation.clone().unwrap(),
        _ => g.subscription.clone().unwrap(),
    };
    // fragments: type conditions chosen up front
    let mut frag_types = vec![];
    let n_frags = rng.below(4) as usize;
    let mut all_composite: Vec<String> = g.objects.iter().map(|o| o.name.clone()).collect();
    all_composite.extend(g.interfaces.iter().map(|i| i.name.clone()));
    all_composite.extend(g.unions.iter().map(|(n, _)| n.clone()));
    for _ in 0..n_frags {
        frag_types.push((rng.pick(&all_composite).clone(), None));
    }
    let introspection = rng.chance(1, 3);
    let mut og = OpGen {
        g,
        rng,
        used_vars: BTreeSet::new(),
        used_frags: BTreeSet::new(),
        frags: frag_types,
        allow_vars: true,
        budget: 14,
        dir_den: 0,
    };
    og.dir_den = *og.rng.pick(&[0, 0, 16, 8, 8, 4]);
    og.budget = *og.rng.pick(&[6, 14, 14, 24, 40]);
    let mut body = if op_kind == "subscription" {
        // single root field, no introspection
        let fields = og.g.fields_of(&root).to_vec();
        let f = og.rng.pick(&fields).clone();
        og.allow_vars = false; // @skip/@include with variables are not allowed on subscription roots
        let sel = og.field_selection(&f, 1);
        format!("{{ {sel} }}")
    } else {
        og.selection_set(&root, 1)
    };
    if op_kind != "subscription" && og.rng.chance(1, 40) {
        // a wide root selection set: 40 … 150 more response keys (size thresholds in collecting,
        // grouping and in the response map)
        let fields = og.g.fields_of(&root).to_vec();
        let k = og.rng.range(40, 150);
        let mut extra = String::new();
        for i in 0..k {
            if fields.is_empty() || og.rng.chance(1, 4) {
                let _ = write!(extra, "w{i}: __typename ");
            } else {
                let f = og.rng.pick(&fields).clone();
                let args = og.args_for(&f, 1 + (i % 2));
                let inner = f.ty.inner_name().to_string();
                let sub = if og.g.is_composite(&inner) { " { __typename }" } else { "" };
                let _ = write!(extra, "w{i}: {}{args}{sub} ", f.name);
            }
        }
        let pos = body.rfind('}').unwrap();
        body.insert_str(pos, &extra);
    }
    if op_kind == "query" && og.rng.chance(1, 5) {
        // schema introspection meta-fields on the query root
        let extra = match og.rng.below(4) {
            0 => "__schema { queryType { name } }".to_string(),
            1 => {
                let t = og.rng.pick(&all_composite).clone();
                format!("__type(name: \"{t}\") {{ name kind }}")
            }
            2 => "__type(name: \"Nope\") { name }".to_string(),
            _ => "meta: __type(name: \"Color\") { kind enumValues { name } }".to_string(),
        };
        let pos = body.rfind('}').unwrap();
        body.insert_str(pos, &format!("{extra} "));
    }
    // fragment bodies: generated in index order; a body may only spread higher-index fragments
    let mut frag_texts = BTreeMap::new();
    let mut idx = 0;
    while idx < og.frags.len() {
        if og.used_frags.contains(&idx) {
            let cond = og.frags[idx].0.clone();
            // temporarily hide lower-or-equal fragments to avoid cycles
            let saved = og.frags.clone();
            for (i, f) in og.frags.iter_mut().enumerate() {
                if i <= idx {
                    f.0 = "__none__".into();
                }
            }
            og.budget = og.budget.max(4);
            let body = og.selection_set(&cond, 2);
            og.frags = saved;
            frag_texts.insert(idx, format!("fragment F{idx} on {cond} {body}"));
        }
        idx += 1;
    }
    let named = og.rng.chance(1, 2);
    let op_name = if named { Some("Op".to_string()) } else { None };
    let var_decls: Vec<&VarDecl> = VARS
        .iter()
        .filter(|v| og.used_vars.contains(v.name))
        .collect();
    let mut doc = String::new();
    doc.push_str(op_kind);
    if let Some(n) = &op_name {
        let _ = write!(doc, " {n}");
    }
    if !var_decls.is_empty() {
        let decls: Vec<&str> = var_decls.iter().map(|v| v.decl).collect();
        let _ = write!(doc, "({})", decls.join(", "));
    }
    let _ = write!(doc, " {body}");
    for t in frag_texts.values() {
        let _ = write!(doc, "\n{t}");
    }
    // a second operation, to exercise operation selection by name
    let mut operation_name = None;
    if named && og.rng.chance(1, 4) {
        let _ = write!(doc, "\nquery Other {{ __typename }}");
        operation_name = Some("Op".to_string());
    } else if named && og.rng.chance(1, 2) {
        operation_name = Some("Op".to_string());
    }
    // variable values
    let mut vars = serde_json::Map::new();
    for v in &var_decls {
        match og.rng.below(20) {
            0 => {} // omitted
            1 | 5 => {
                vars.insert(v.name.to_string(), J::Null);
            }
            2..=4 if v.decl.contains('=') => {} // omitted: default applies
            _ => {
                vars.insert(v.name.to_string(), (v.good)(og.rng));
            }
        }
    }
    Request {
        schema,
        document: doc,
        operation_name,
        variables: J::Object(vars),
        introspection,
    }
}
