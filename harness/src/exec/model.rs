//! Reference executor for C26, written against the public `Schema` / `ExecutableDocument` types
//! from the October-2021 spec §6 and the rustdoc of `apollo_compiler::resolvers`
//! (decision table: DESIGN.md appendix A). It never reads apollo-compiler's private state.
//!
//! Two variants on the same world: `early_exit = true` (model M: apollo's current
//! cancellation: stop a selection set / a list at the first propagating failure) and
//! `early_exit = false` (model F: nothing cancelled, remaining siblings and items are still
//! executed for their errors).

use super::sim::CallRec;
use super::world::Outcome;
use super::world::Val;
use super::world::World;
use apollo_compiler::ast::Value;
use apollo_compiler::executable::Field;
use apollo_compiler::executable::Selection;
use apollo_compiler::schema::ExtendedType;
use apollo_compiler::schema::FieldDefinition;
use apollo_compiler::schema::Type;
use apollo_compiler::validation::Valid;
use apollo_compiler::ExecutableDocument;
use apollo_compiler::Node;
use apollo_compiler::Schema;
use serde_json::Map;
use serde_json::Value as J;
use std::collections::BTreeMap;
use std::collections::BTreeSet;

pub struct Propagate;

/// "with path and locations filled in" (rustdoc of `FieldError`): a field error is located at the
/// name of a field of its group (any of the merged ones, at least one); an argument-coercion error at the offending value (inside
/// the field, after its name) or at the argument's definition in the schema, which the document's
/// source map may not be able to render (then `locations` is empty).
#[derive(Clone, Debug, PartialEq)]
pub enum ErrLoc {
    /// at least one location, each of them the (line, column) of the name of one of the merged
    /// fields of the group (apollo-compiler reports the first; the reference implementation
    /// reports all of them: both readings of "locations filled in" are accepted)
    FieldName(Vec<(usize, usize)>),
    /// at most one location, not before the field name
    Argument(usize, usize),
    /// the field has no location (cannot happen for parsed documents)
    Unknown,
}

pub struct Model<'a> {
    pub schema: &'a Valid<Schema>,
    pub doc: &'a Valid<ExecutableDocument>,
    pub vars: &'a Map<String, J>,
    pub world: World,
    pub early_exit: bool,
    pub introspection: bool,
    pub errors: Vec<String>,
    /// parallel to `errors`: where the error must be located in the document
    pub error_locs: Vec<ErrLoc>,
    pub calls: Vec<CallRec>,
    /// every position completed: path → declared type is non-null
    pub positions: BTreeMap<String, bool>,
    /// positions where a null was placed because of a field error ("" = root)
    pub nullified: BTreeSet<String>,
    /// the model met something it does not model (introspection sub-trees beyond the templates)
    pub unsupported: Option<String>,
    /// list path → stream indices of items that were skipped (SkipForPartialExecution): error
    /// paths count stream positions, the response list does not contain those items
    pub skipped_items: BTreeMap<String, Vec<usize>>,
    /// which rows of the decision table (DESIGN.md appendix A) this run reached
    pub rows: std::cell::RefCell<BTreeMap<&'static str, u64>>,
}

pub struct ModelResponse {
    pub data: Option<J>,
}

fn child(parent: &str, key: &str) -> String {
    if parent.is_empty() {
        key.to_string()
    } else {
        format!("{parent}/{key}")
    }
}

impl<'a> Model<'a> {
    fn row(&self, k: &'static str) {
        *self.rows.borrow_mut().entry(k).or_default() += 1;
    }

    pub fn execute(&mut self, operation_name: Option<&str>) -> Result<ModelResponse, String> {
        let op = self
            .doc
            .operations
            .get(operation_name)
            .map_err(|e| e.message().to_string())?;
        let root_name = op.object_type();
        if self.schema.get_object(root_name).is_none() {
            return Err("Undefined root operation type".into());
        }
        let sels: Vec<&'a Selection> = op.selection_set.selections.iter().collect();
        let op_doc: &'a Valid<ExecutableDocument> = self.doc;
        let _ = op_doc;
        match self.selection_set("", root_name.as_str(), &sels) {
            Ok(map) => Ok(ModelResponse {
                data: Some(J::Object(map)),
            }),
            Err(Propagate) => {
                self.nullified.insert(String::new());
                Ok(ModelResponse { data: None })
            }
        }
    }

    fn eval_if(&self, sel: &Selection, directive: &str) -> Option<bool> {
        let d = sel.directives().get(directive)?;
        let arg = d.specified_argument_by_name("if")?;
        match arg.as_ref() {
            Value::Boolean(b) => Some(*b),
            Value::Variable(v) => self.vars.get(v.as_str())?.as_bool(),
            _ => None,
        }
    }

    fn fragment_applies(&self, object_type: &str, cond: &str) -> bool {
        match self.schema.types.get(cond) {
            Some(ExtendedType::Object(_)) => cond == object_type,
            Some(ExtendedType::Interface(_)) => self
                .schema
                .get_object(object_type)
                .is_some_and(|o| o.implements_interfaces.contains(cond)),
            Some(ExtendedType::Union(u)) => u.members.contains(object_type),
            _ => false,
        }
    }

    fn collect(
        &self,
        object_type: &str,
        sels: &[&'a Selection],
        visited: &mut BTreeSet<String>,
        groups: &mut Vec<(String, Vec<&'a Field>)>,
    ) {
        for sel in sels {
            // spec 6.3.2: skip first, then include
            if self.eval_if(sel, "skip").unwrap_or(false) {
                self.row("collect.skipped_by_skip");
                continue;
            }
            if !self.eval_if(sel, "include").unwrap_or(true) {
                self.row("collect.skipped_by_include");
                continue;
            }
            match sel {
                Selection::Field(f) => {
                    let key = f.response_key().to_string();
                    if let Some(g) = groups.iter_mut().find(|(k, _)| *k == key) {
                        self.row("collect.field_merged_into_existing_key");
                        g.1.push(f);
                    } else {
                        groups.push((key, vec![f]));
                    }
                }
                Selection::FragmentSpread(s) => {
                    if !visited.insert(s.fragment_name.to_string()) {
                        self.row("collect.fragment_already_visited");
                        continue;
                    }
                    let Some(frag) = self.doc.fragments.get(&s.fragment_name) else {
                        continue;
                    };
                    if !self.fragment_applies(object_type, frag.type_condition().as_str()) {
                        self.row("collect.named_fragment_does_not_apply");
                        continue;
                    }
                    self.row("collect.named_fragment_applies");
                    let inner: Vec<&'a Selection> = frag.selection_set.selections.iter().collect();
                    // SAFETY-free lifetime note: `frag` borrows from `self.doc: &'a _`
                    self.collect(object_type, &inner, visited, groups);
                }
                Selection::InlineFragment(i) => {
                    if let Some(cond) = &i.type_condition {
                        if !self.fragment_applies(object_type, cond.as_str()) {
                            self.row("collect.inline_fragment_does_not_apply");
                            continue;
                        }
                        self.row("collect.inline_fragment_applies");
                    }
                    let inner: Vec<&'a Selection> = i.selection_set.selections.iter().collect();
                    self.collect(object_type, &inner, visited, groups);
                }
            }
        }
    }

    fn selection_set(
        &mut self,
        path: &str,
        object_type: &str,
        sels: &[&'a Selection],
    ) -> Result<Map<String, J>, Propagate> {
        let mut groups = vec![];
        self.collect(object_type, sels, &mut BTreeSet::new(), &mut groups);
        let mut out = Map::new();
        let mut failed = false;
        for (key, fields) in groups {
            let fname = fields[0].name.as_str();
            let Ok(def) = self.schema.type_field(object_type, fname) else {
                self.row("field.unknown_definition_key_omitted");
                continue;
            };
            let def: FieldDefinition = (***def).clone();
            let fpath = child(path, &key);
            match self.field(&fpath, object_type, &def, &fields) {
                Ok(Some(v)) => {
                    out.insert(key, v);
                }
                Ok(None) => {}
                Err(Propagate) => {
                    if self.early_exit {
                        return Err(Propagate);
                    }
                    failed = true;
                }
            }
        }
        if failed {
            Err(Propagate)
        } else {
            Ok(out)
        }
    }

    fn error(&mut self, path: &str, fields: &[&'a Field]) {
        self.errors.push(path.to_string());
        let all: Vec<(usize, usize)> = fields.iter().filter_map(|f| self.name_line_column(f)).collect();
        self.error_locs.push(if all.is_empty() { ErrLoc::Unknown } else { ErrLoc::FieldName(all) });
    }

    fn name_line_column(&self, field: &Field) -> Option<(usize, usize)> {
        let lc = field.name.location()?.line_column(&self.doc.sources)?;
        Some((lc.line, lc.column))
    }

    /// Place a null at `path` if its type allows, else keep propagating
    fn nullify(
        &mut self,
        path: &str,
        ty: &Type,
        r: Result<Option<J>, Propagate>,
    ) -> Result<Option<J>, Propagate> {
        match r {
            Ok(v) => Ok(v),
            Err(Propagate) => {
                if ty.is_non_null() {
                    self.row("nullify.non_null_keeps_propagating");
                    Err(Propagate)
                } else {
                    self.row("nullify.null_placed_at_nullable");
                    self.nullified.insert(path.to_string());
                    Ok(Some(J::Null))
                }
            }
        }
    }

    fn field(
        &mut self,
        path: &str,
        object_type: &str,
        def: &FieldDefinition,
        fields: &[&'a Field],
    ) -> Result<Option<J>, Propagate> {
        let field = fields[0];
        self.positions.insert(path.to_string(), def.ty.is_non_null());
        let args = match self.coerce_args(def, field) {
            Ok(a) => a,
            Err(()) => {
                self.row("field.argument_coercion_error");
                self.errors.push(path.to_string());
                self.error_locs.push(match self.name_line_column(field) {
                    Some((l, c)) => ErrLoc::Argument(l, c),
                    None => ErrLoc::Unknown,
                });
                return self.nullify(path, &def.ty, Err(Propagate));
            }
        };
        let is_query_root = self
            .schema
            .schema_definition
            .query
            .as_ref()
            .is_some_and(|q| q.name == object_type);
        let completed = match field.name.as_str() {
            "__typename" => {
                self.row("field.__typename");
                Ok(Some(J::String(object_type.to_string())))
            }
            "__schema" | "__type" if is_query_root => {
                if path.contains('/') {
                    self.row("field.schema_meta_field_below_the_root");
                }
                if !self.introspection {
                    self.row("field.introspection_disabled");
                    self.error(path, fields);
                    Err(Propagate)
                } else {
                    self.row("field.introspection_enabled");
                    match self.introspect(field, &args, fields) {
                        Some(v) => {
                            if v.is_null() && def.ty.is_non_null() {
                                self.error(path, fields);
                                Err(Propagate)
                            } else {
                                Ok(Some(v))
                            }
                        }
                        None => {
                            self.unsupported =
                                Some(format!("introspection selection at {path} not modelled"));
                            Ok(Some(J::Null))
                        }
                    }
                }
            }
            _ => {
                self.calls.push(CallRec {
                    path: path.to_string(),
                    parent_type: object_type.to_string(),
                    field: field.name.to_string(),
                    args: J::Object(args),
                    sels: super::sim::selection_ids(fields),
                });
                let outcome =
                    self.world
                        .resolve(self.schema, path, object_type, field.name.as_str(), &def.ty);
                match outcome {
                    Err(_) => {
                        self.row("field.resolver_error");
                        self.error(path, fields);
                        Err(Propagate)
                    }
                    Ok(v) => self.complete(path, &def.ty, v, fields),
                }
            }
        };
        self.nullify(path, &def.ty, completed)
    }

    fn complete(
        &mut self,
        path: &str,
        ty: &Type,
        v: Val,
        fields: &[&'a Field],
    ) -> Result<Option<J>, Propagate> {
        match v {
            Val::Skip => {
                self.row("complete.skip_for_partial_execution");
                Ok(None)
            }
            Val::Leaf(J::Null) => {
                if ty.is_non_null() {
                    self.row("complete.null_for_non_null");
                    self.error(path, fields);
                    Err(Propagate)
                } else {
                    self.row("complete.null_for_nullable");
                    Ok(Some(J::Null))
                }
            }
            Val::List(items, _) => {
                let inner = match ty {
                    Type::Named(_) | Type::NonNullNamed(_) => {
                        self.row("complete.list_for_named_type");
                        self.error(path, fields);
                        return Err(Propagate);
                    }
                    Type::List(inner) | Type::NonNullList(inner) => inner,
                };
                self.row(if matches!(**inner, Type::List(_) | Type::NonNullList(_)) {
                    "complete.list_of_lists"
                } else {
                    "complete.list"
                });
                let mut out = vec![];
                let mut failure: Option<Result<Option<J>, Propagate>> = None;
                for (i, item) in items.into_iter().enumerate() {
                    let ipath = child(path, &i.to_string());
                    self.positions.insert(ipath.clone(), inner.is_non_null());
                    let r = match item {
                        Err(_) => {
                            self.row("complete.list_item_iterator_error");
                            // apollo-compiler: a failing list *iterator* ends completion of the
                            // list, and the failure is not contained by the item's nullability
                            // (unit test `test_error_path`)
                            self.error(&ipath, fields);
                            if failure.is_none() {
                                failure = Some(Err(Propagate));
                            }
                            if self.early_exit {
                                break;
                            }
                            continue;
                        }
                        Ok(v) => {
                            let r = self.complete(&ipath, inner, v, fields);
                            self.nullify(&ipath, inner, r)
                        }
                    };
                    match r {
                        Ok(None) => {
                            self.row("complete.list_item_skipped");
                            self.skipped_items.entry(path.to_string()).or_default().push(i);
                        }
                        Ok(Some(v)) => out.push(v),
                        Err(Propagate) => {
                            self.row("complete.non_null_item_failed_list_nullified_or_propagated");
                            if failure.is_none() {
                                let r = self.nullify(path, ty, Err(Propagate));
                                failure = Some(r);
                            }
                            if self.early_exit {
                                break;
                            }
                        }
                    }
                }
                match failure {
                    Some(f) => f,
                    None => Ok(Some(J::Array(out))),
                }
            }
            Val::Leaf(json) => {
                let name = match ty {
                    Type::List(_) | Type::NonNullList(_) => {
                        self.row("complete.leaf_for_list_type");
                        self.error(path, fields);
                        return Err(Propagate);
                    }
                    Type::Named(n) | Type::NonNullNamed(n) => n,
                };
                self.row(match self.schema.types.get(name) {
                    Some(ExtendedType::Enum(_)) => "complete.leaf_for_enum",
                    Some(ExtendedType::Scalar(_)) => match name.as_str() {
                        "Int" => "complete.leaf_for_Int",
                        "Float" => "complete.leaf_for_Float",
                        "String" => "complete.leaf_for_String",
                        "Boolean" => "complete.leaf_for_Boolean",
                        "ID" => "complete.leaf_for_ID",
                        _ => "complete.leaf_for_custom_scalar",
                    },
                    _ => "complete.leaf_for_composite",
                });
                let ok = match self.schema.types.get(name) {
                    None | Some(ExtendedType::InputObject(_)) => false,
                    Some(
                        ExtendedType::Object(_)
                        | ExtendedType::Interface(_)
                        | ExtendedType::Union(_),
                    ) => false,
                    Some(ExtendedType::Enum(e)) => json
                        .as_str()
                        .is_some_and(|s| e.values.contains_key(s)),
                    Some(ExtendedType::Scalar(_)) => match name.as_str() {
                        // rustdoc: "built-in scalars are coerced according to their respective
                        // Result Coercion"; code comment: non-integer internal values are not
                        // coerced to Int ("We choose not to")
                        "Int" => json.as_i64().is_some_and(|i| i32::try_from(i).is_ok()),
                        "Float" => json.is_f64(),
                        "String" => json.is_string(),
                        "Boolean" => json.is_boolean(),
                        "ID" => json.is_string() || json.is_i64(),
                        _ => true, // custom scalar: any JSON passes through
                    },
                };
                if ok {
                    Ok(Some(json))
                } else {
                    self.row("complete.leaf_rejected_by_result_coercion");
                    self.error(path, fields);
                    Err(Propagate)
                }
            }
            Val::Object(type_name) => {
                let name = match ty {
                    Type::List(_) | Type::NonNullList(_) => {
                        self.row("complete.object_for_list_type");
                        self.error(path, fields);
                        return Err(Propagate);
                    }
                    Type::Named(n) | Type::NonNullNamed(n) => n,
                };
                self.row(match self.schema.types.get(name) {
                    Some(ExtendedType::Object(_)) => "complete.object_for_object_type",
                    Some(ExtendedType::Interface(_)) => "complete.object_for_interface",
                    Some(ExtendedType::Union(_)) => "complete.object_for_union",
                    _ => "complete.object_for_leaf_type",
                });
                let ok = match self.schema.types.get(name) {
                    Some(ExtendedType::Object(_)) => type_name == name.as_str(),
                    Some(ExtendedType::Interface(_)) => self
                        .schema
                        .get_object(&type_name)
                        .is_some_and(|o| o.implements_interfaces.contains(name)),
                    Some(ExtendedType::Union(u)) => {
                        self.schema.get_object(&type_name).is_some()
                            && u.members.contains(type_name.as_str())
                    }
                    _ => false,
                };
                if !ok {
                    self.row("complete.object_of_wrong_or_unknown_type");
                    self.error(path, fields);
                    return Err(Propagate);
                }
                if fields.len() > 1 {
                    self.row("complete.merged_sub_selections");
                }
                let sels: Vec<&'a Selection> = fields
                    .iter()
                    .flat_map(|f| f.selection_set.selections.iter())
                    .collect();
                self.selection_set(path, &type_name, &sels)
                    .map(|m| Some(J::Object(m)))
            }
        }
    }

    // ---------------------------------------------------------------- CoerceArgumentValues

    fn coerce_args(&self, def: &FieldDefinition, field: &Field) -> Result<Map<String, J>, ()> {
        let mut out = Map::new();
        for arg_def in &def.arguments {
            let name = arg_def.name.as_str();
            let provided = field.arguments.iter().find(|a| a.name == arg_def.name);
            let mut has_value = false;
            if let Some(arg) = provided {
                match arg.value.as_ref() {
                    Value::Variable(var) => {
                        if let Some(v) = self.vars.get(var.as_str()) {
                            if v.is_null() && arg_def.ty.is_non_null() {
                                return Err(());
                            }
                            out.insert(name.to_string(), v.clone());
                            has_value = true;
                        }
                    }
                    Value::Null => {
                        if arg_def.ty.is_non_null() {
                            return Err(());
                        }
                        out.insert(name.to_string(), J::Null);
                        has_value = true;
                    }
                    _ => {
                        match self.coerce_literal(&arg_def.ty, &arg.value)? {
                            Some(v) => out.insert(name.to_string(), v),
                            None => unreachable!("top-level variables handled above"),
                        };
                        has_value = true;
                    }
                }
            }
            if has_value {
                continue;
            }
            if let Some(default) = &arg_def.default_value {
                out.insert(name.to_string(), const_to_json(default)?);
            } else if arg_def.ty.is_non_null() {
                return Err(());
            }
        }
        Ok(out)
    }

    /// `Ok(None)`: a variable without a runtime value (the caller decides: an input object field
    /// is then treated as not provided, spec §3.10; a list item becomes null)
    fn coerce_literal(&self, ty: &Type, value: &Node<Value>) -> Result<Option<J>, ()> {
        if value.is_null() {
            return if ty.is_non_null() {
                Err(())
            } else {
                Ok(Some(J::Null))
            };
        }
        if let Value::Variable(var) = value.as_ref() {
            return match self.vars.get(var.as_str()) {
                Some(v) => {
                    if v.is_null() && ty.is_non_null() {
                        Err(())
                    } else {
                        Ok(Some(v.clone()))
                    }
                }
                None => Ok(None),
            };
        }
        let name = match ty {
            Type::List(inner) | Type::NonNullList(inner) => {
                let items: &[Node<Value>] = match value.as_ref() {
                    Value::List(items) => items,
                    _ => std::slice::from_ref(value),
                };
                let mut out = vec![];
                for item in items {
                    match self.coerce_literal(inner, item)? {
                        Some(v) => out.push(v),
                        None => {
                            if inner.is_non_null() {
                                return Err(());
                            }
                            out.push(J::Null)
                        }
                    }
                }
                return Ok(Some(J::Array(out)));
            }
            Type::Named(n) | Type::NonNullNamed(n) => n,
        };
        match self.schema.types.get(name) {
            None => Err(()),
            Some(ExtendedType::InputObject(def)) => {
                let Value::Object(obj) = value.as_ref() else {
                    return Err(());
                };
                if obj.iter().any(|(k, _)| !def.fields.contains_key(k)) {
                    return Err(());
                }
                let mut out = Map::new();
                for (fname, fdef) in &def.fields {
                    let mut provided = None;
                    if let Some((_, v)) = obj.iter().find(|(k, _)| k == fname) {
                        provided = self.coerce_literal(&fdef.ty, v)?;
                    }
                    if let Some(v) = provided {
                        out.insert(fname.to_string(), v);
                    } else if let Some(default) = &fdef.default_value {
                        out.insert(fname.to_string(), const_to_json(default)?);
                    } else if fdef.ty.is_non_null() {
                        return Err(());
                    }
                }
                Ok(Some(J::Object(out)))
            }
            Some(_) => const_to_json(value).map(Some),
        }
    }

    // ---------------------------------------------------------------- introspection templates

    /// A deliberately tiny model of schema introspection: only `name`, `kind`,
    /// `enumValues { name }` on `__type` and `queryType { name }` on `__schema`.
    /// Anything else ⇒ `None` (the run is counted as unsupported, not compared).
    fn introspect(&self, field: &Field, args: &Map<String, J>, fields: &[&'a Field]) -> Option<J> {
        let sels: Vec<&Selection> = fields
            .iter()
            .flat_map(|f| f.selection_set.selections.iter())
            .collect();
        match field.name.as_str() {
            "__schema" => {
                let mut out = Map::new();
                for s in sels {
                    let Selection::Field(f) = s else { return None };
                    if !f.directives.is_empty() {
                        return None;
                    }
                    match f.name.as_str() {
                        "queryType" => {
                            let q = self.schema.schema_definition.query.as_ref()?;
                            out.insert(
                                f.response_key().to_string(),
                                self.introspect_type(q.name.as_str(), &f.selection_set.selections)?,
                            );
                        }
                        "__typename" => {
                            out.insert(f.response_key().to_string(), J::String("__Schema".into()));
                        }
                        _ => return None,
                    }
                }
                Some(J::Object(out))
            }
            "__type" => {
                let name = args.get("name")?.as_str()?;
                if !self.schema.types.contains_key(name) {
                    return Some(J::Null);
                }
                let owned: Vec<Selection> = sels.into_iter().cloned().collect();
                self.introspect_type(name, &owned)
            }
            _ => None,
        }
    }

    fn introspect_type(&self, name: &str, sels: &[Selection]) -> Option<J> {
        let def = self.schema.types.get(name)?;
        let mut out = Map::new();
        for s in sels {
            let Selection::Field(f) = s else { return None };
            if !f.directives.is_empty() {
                return None;
            }
            let v = match f.name.as_str() {
                "name" => J::String(name.to_string()),
                "__typename" => J::String("__Type".into()),
                "kind" => J::String(
                    match def {
                        ExtendedType::Scalar(_) => "SCALAR",
                        ExtendedType::Object(_) => "OBJECT",
                        ExtendedType::Interface(_) => "INTERFACE",
                        ExtendedType::Union(_) => "UNION",
                        ExtendedType::Enum(_) => "ENUM",
                        ExtendedType::InputObject(_) => "INPUT_OBJECT",
                    }
                    .into(),
                ),
                "enumValues" => match def {
                    ExtendedType::Enum(e) => {
                        let mut vals = vec![];
                        for v in e.values.keys() {
                            let mut m = Map::new();
                            for s2 in &f.selection_set.selections {
                                let Selection::Field(f2) = s2 else { return None };
                                if f2.name != "name" || !f2.directives.is_empty() {
                                    return None;
                                }
                                m.insert(f2.response_key().to_string(), J::String(v.to_string()));
                            }
                            vals.push(J::Object(m));
                        }
                        J::Array(vals)
                    }
                    _ => J::Null,
                },
                _ => return None,
            };
            out.insert(f.response_key().to_string(), v);
        }
        Some(J::Object(out))
    }
}

/// Literal (constant) GraphQL value → JSON, the way apollo-compiler documents it: rely on
/// validation and convert between representations.
pub fn const_to_json(value: &Node<Value>) -> Result<J, ()> {
    Ok(match value.as_ref() {
        Value::Null => J::Null,
        Value::Variable(_) => return Err(()),
        Value::Enum(e) => J::String(e.to_string()),
        Value::String(s) => J::String(s.clone()),
        Value::Boolean(b) => J::Bool(*b),
        Value::Int(i) => J::Number(i.as_str().parse().map_err(|_| ())?),
        Value::Float(f) => J::Number(f.as_str().parse().map_err(|_| ())?),
        Value::List(items) => J::Array(
            items
                .iter()
                .map(const_to_json)
                .collect::<Result<Vec<_>, _>>()?,
        ),
        Value::Object(fields) => {
            let mut m = Map::new();
            for (k, v) in fields {
                m.insert(k.to_string(), const_to_json(v)?);
            }
            J::Object(m)
        }
    })
}

/// Translate a path that counts stream positions (as error paths do) into the path of the same
/// position in `data`, where skipped list items are absent. `None`: the position itself was skipped.
pub fn to_data_path(skipped: &BTreeMap<String, Vec<usize>>, stream_path: &str) -> Option<String> {
    if skipped.is_empty() || stream_path.is_empty() {
        return Some(stream_path.to_string());
    }
    let mut stream_prefix = String::new();
    let mut data = String::new();
    for seg in stream_path.split('/') {
        let mut out_seg = seg.to_string();
        if let (Ok(idx), Some(sk)) = (seg.parse::<usize>(), skipped.get(&stream_prefix)) {
            if sk.contains(&idx) {
                return None;
            }
            out_seg = (idx - sk.iter().filter(|s| **s < idx).count()).to_string();
        }
        if !stream_prefix.is_empty() {
            stream_prefix.push('/');
            data.push('/');
        }
        stream_prefix.push_str(seg);
        data.push_str(&out_seg);
    }
    Some(data)
}

pub fn outcome_brief(o: &Outcome) -> String {
    super::world::outcome_to_json(o).to_string()
}
