mod core;
mod exec;
mod gen;
mod props;

fn main() {
    std::process::exit(core::batch::main_entry());
}
