//! C26 — execution follows the GraphQL execution algorithm.
//! Fault injection at the resolver seam, refinement against the reference executor.

use crate::core::batch::Property;
use crate::core::batch::RunReport;
use crate::core::batch::Tier;
use crate::core::batch::Violation;
use crate::core::rng::mix;
use crate::core::rng::Rng;
use crate::exec;
use crate::exec::world;
use crate::exec::Case;
use serde_json::json;
use serde_json::Value as J;

pub struct C26;

const WORLDS_PER_REQUEST: u64 = 6;

pub fn swarm_faults(rng: &mut Rng, world_index: u64) -> (u32, u32) {
    if world_index == 0 {
        return (0, 0); // the fault-free configuration always runs first, compared strictly
    }
    match rng.below(8) {
        0..=2 => (60, exec::ALL_FAULTS),
        3..=4 => (150, exec::ALL_FAULTS),
        5 => (300, exec::ALL_FAULTS),
        _ => {
            let mut m = 0u32;
            for i in 0..world::FAULT_KINDS.len() {
                if rng.chance(1, 3) {
                    m |= 1 << i;
                }
            }
            (250, m)
        }
    }
}

fn check(case: &Case) -> Option<Violation> {
    match exec::parse(case) {
        Err(_) => None,
        Ok(p) => exec::check_c26(case, &p, false).violation,
    }
}

impl Property for C26 {
    fn id(&self) -> &'static str {
        "C26"
    }
    fn engine(&self) -> &'static str {
        "asyncsim"
    }
    fn level(&self) -> &'static str {
        "fault_enumeration"
    }
    fn units(&self, tier: Tier) -> u64 {
        match tier {
            Tier::Quick => 300_000,
            Tier::Thorough => 6_000_000,
        }
    }

    fn run_unit(&self, seed: u64, unit: u64, _tier: Tier, sink: &mut dyn FnMut(RunReport)) {
        let run_seed = mix(&[seed, 26, unit]);
        let mut case = exec::gen_case(run_seed, &exec::GenCfg { with_schedule: false });
        let parsed = match exec::parse(&case) {
            Ok(p) => p,
            Err(e) => {
                let reason = e.split(':').next().unwrap_or("invalid").to_string();
                sink(RunReport {
                    discarded: Some(reason),
                    ..Default::default()
                });
                return;
            }
        };
        let mut fr = Rng::split(run_seed, "faults");
        for w in 0..WORLDS_PER_REQUEST {
            case.world_seed = mix(&[run_seed, 0xC0FFEE, w]);
            let (permille, mask) = swarm_faults(&mut fr, w);
            case.fault_permille = permille;
            case.fault_mask = mask;
            case.list_scale = match fr.below(60) {
                0 => 2,
                1..=2 => 1,
                _ => 0,
            };
            let out = exec::check_c26(&case, &parsed, false);
            let mut r = RunReport::default();
            let mut counters: Vec<(String, u64)> = vec![];
            let mut add = |k: &str, v: u64| counters.push((k.to_string(), v));
            add(if permille == 0 { "cfg.fault_free" } else { "cfg.faulty" }, 1);
            if out.request_error {
                add("outcome.request_error", 1);
            }
            if out.unsupported {
                add("outcome.introspection_not_modelled", 1);
            }
            if out.propagated_to_root {
                add("outcome.data_null", 1);
            }
            if out.equals_m_errors {
                add("stat.errors_equal_model_M", 1);
            }
            if out.rekeyed {
                add("perturb.executed_again_under_other_hash_keys", 1);
            }
            for (k, v) in &out.model_rows {
                add(&format!("model_row.{k}"), *v);
            }
            let mut faults = 0;
            if let Some(real) = &out.real {
                for (k, v) in &real.world.fired {
                    let is_fault = world::FAULT_KINDS.contains(k);
                    add(&format!("{}.{k}", if is_fault { "fault" } else { "note" }), *v);
                    if is_fault {
                        faults += *v;
                    }
                }
                add("resolver_calls", real.calls.len() as u64);
                if let Ok(resp) = &real.response {
                    let n = resp.get("errors").and_then(|e| e.as_array()).map(|a| a.len()).unwrap_or(0);
                    add("field_errors_in_responses", n as u64);
                    if n > 0 {
                        add("outcome.response_with_errors", 1);
                    }
                }
                r.event_digest = u64::from_str_radix(&real.event_digest[..16], 16).unwrap_or(0);
            }
            r.case_digest = exec::case_digest(&case);
            r.schedule_digest = 0;
            r.nontrivial = faults > 0;
            r.counters = counters;
            if let Some(v) = out.violation {
                let mut explicit = case.clone();
                explicit.overrides = out.consulted.clone();
                r.violation = Some((v, explicit.to_json()));
            }
            if unit < 32 && w == 1 {
                let mut explicit = case.clone();
                explicit.overrides = out.consulted.clone();
                r.sample = Some(explicit.to_json());
            }
            sink(r);
        }
    }

    fn replay(&self, case: &J) -> Result<Option<Violation>, String> {
        let case = Case::from_json(case)?;
        let p = exec::parse(&case).map_err(|e| format!("replay case does not validate: {e}"))?;
        Ok(exec::check_c26(&case, &p, false).violation)
    }

    fn minimise(&self, case: &J, class: &str) -> (J, u64) {
        let Ok(case) = Case::from_json(case) else {
            return (case.clone(), 0);
        };
        let mut start = case.clone();
        // with every consulted outcome explicit, generation can be switched to fault-free so that
        // removing an override yields a conforming value
        let mut c0 = case.clone();
        c0.fault_permille = 0;
        if check(&c0).map(|v| v.class).as_deref() == Some(class) {
            start = c0;
        }
        let (mut min, steps) = super::execmin::minimise(&start, class, &|c| check(c).map(|v| v.class));
        // keep only the world outcomes the minimised case still consults
        if let Ok(p) = exec::parse(&min) {
            let out = exec::check_c26(&min, &p, false);
            let mut pruned = min.clone();
            pruned.overrides.retain(|k, _| out.consulted.contains_key(k));
            if check(&pruned).map(|v| v.class).as_deref() == Some(class) {
                min = pruned;
            }
        }
        (min.to_json(), steps + 1)
    }

    fn signature(&self, v: &Violation, _case: &J) -> String {
        signature(v)
    }

    fn rule(&self) -> String {
        "unit = one seeded (schema, operation, variables) request accepted by the real validator \
         (input generation), executed under 6 resolver worlds: world 0 fault-free (errors compared \
         strictly with the reference), worlds 1-5 with swarm-selected fault kinds and rates injected \
         at the ObjectValue::resolve_field / list-iterator seam. A run is non-trivial if at least \
         one fault kind fired at a consulted position; distinct = distinct (request, world) digests."
            .into()
    }

    fn assumptions(&self) -> Vec<String> {
        vec![
            "parser, validator and executable typing (Field::definition, SelectionSet::ty) are trusted (C05/C17/C18)".into(),
            "variable coercion uses the real coerce_variable_values for the reference too (C28's subject)".into(),
            "schema introspection sub-trees are modelled only for name/kind/enumValues/queryType templates; other shapes are counted as not modelled".into(),
            "error messages and error order are not compared; data is compared exactly, key order included".into(),
            "reference executor written from the October-2021 spec section 6 and the crate's rustdoc (DESIGN.md appendix A)".into(),
        ]
    }

    fn real_vs_stub(&self) -> J {
        json!({
            "real": ["apollo-parser", "apollo-compiler (Schema/ExecutableDocument parse+validate, resolvers::Execution::execute_sync, coerce_variable_values, introspection resolvers)"],
            "stub": ["resolvers (ObjectValue impls driven by the seeded world)", "reference executor (model M/F)"],
        })
    }
}

/// Signature: violation class plus a normalised shape of the detail (digits and quoted
/// names stripped), so that one defect seen on many inputs maps to one signature while a
/// different defect of the same class does not.
pub fn signature(v: &Violation) -> String {
    // details are written as "<stable phrase> | <specifics of this input>"
    match v.detail.split_once(" | ") {
        Some((stable, _)) => format!("{}:{}", v.class, shape(stable)),
        None => v.class.clone(),
    }
}

pub fn shape(detail: &str) -> String {
    // keep only the structural words: drop quoted names, digits, paths
    let mut out = String::new();
    let mut in_tick = false;
    for c in detail.chars() {
        if c == '`' {
            in_tick = !in_tick;
            continue;
        }
        if in_tick || c.is_ascii_digit() {
            continue;
        }
        out.push(c);
        if out.len() > 60 {
            break;
        }
    }
    out
}
