//! `asyncsim` engine: C26 (fault injection at the resolver seam against the reference executor)
//! and C27 (readiness / wake-up schedules of resolver futures and streams).

pub mod model;
pub mod sim;
pub mod world;

use crate::core::rng::mix;
use crate::core::rng::Digest;
use crate::core::rng::Rng;
use crate::gen;
use apollo_compiler::request::coerce_variable_values;
use apollo_compiler::resolvers::Execution;
use apollo_compiler::response::ExecutionResponse;
use apollo_compiler::response::JsonMap;
use apollo_compiler::response::ResponseDataPathSegment;
use apollo_compiler::validation::Valid;
use apollo_compiler::ExecutableDocument;
use apollo_compiler::Schema;
use serde_json::json;
use serde_json::Value as J;
use sim::CallRec;
use sim::Inner;
use sim::RunEnd;
use sim::Schedule;
use std::collections::BTreeMap;
use std::panic::AssertUnwindSafe;
use world::World;

/// One explicit simulation case. Everything a run depends on is in here.
#[derive(Clone, Debug)]
pub struct Case {
    pub schema: String,
    pub document: String,
    pub operation_name: Option<String>,
    pub variables: J,
    pub introspection: bool,
    pub world_seed: u64,
    pub fault_permille: u32,
    pub fault_mask: u32,
    pub list_scale: u32,
    pub overrides: BTreeMap<String, world::Outcome>,
    pub schedule: Schedule,
}

impl Case {
    pub fn to_json(&self) -> J {
        let world: Vec<J> = self
            .overrides
            .iter()
            .map(|(k, o)| json!({"at": k, "outcome": world::outcome_to_json(o)}))
            .collect();
        json!({
            "schema": self.schema,
            "operation": self.document,
            "operation_name": self.operation_name,
            "variables": self.variables,
            "introspection": self.introspection,
            "world_seed": self.world_seed.to_string(),
            "fault_permille": self.fault_permille,
            "fault_mask": self.fault_mask,
            "list_scale": self.list_scale,
            "world": world,
            "schedule": self.schedule.to_json(),
        })
    }

    pub fn from_json(j: &J) -> Result<Case, String> {
        let s = |k: &str| -> Result<String, String> {
            j.get(k)
                .and_then(|v| v.as_str())
                .map(|s| s.to_string())
                .ok_or_else(|| format!("case.{k} missing"))
        };
        let mut overrides = BTreeMap::new();
        for e in j.get("world").and_then(|w| w.as_array()).into_iter().flatten() {
            let at = e.get("at").and_then(|a| a.as_str()).ok_or("world.at")?;
            let o = world::outcome_from_json(e.get("outcome").ok_or("world.outcome")?)?;
            overrides.insert(at.to_string(), o);
        }
        Ok(Case {
            schema: s("schema")?,
            document: s("operation")?,
            operation_name: j
                .get("operation_name")
                .and_then(|v| v.as_str())
                .map(|s| s.to_string()),
            variables: j.get("variables").cloned().unwrap_or(json!({})),
            introspection: j
                .get("introspection")
                .and_then(|v| v.as_bool())
                .unwrap_or(false),
            world_seed: s("world_seed")?.parse().map_err(|_| "world_seed")?,
            fault_permille: j.get("fault_permille").and_then(|v| v.as_u64()).unwrap_or(0) as u32,
            fault_mask: j.get("fault_mask").and_then(|v| v.as_u64()).unwrap_or(0) as u32,
            list_scale: j.get("list_scale").and_then(|v| v.as_u64()).unwrap_or(0) as u32,
            overrides,
            schedule: Schedule::from_json(j.get("schedule").unwrap_or(&json!({})))?,
        })
    }

    fn world(&self) -> World {
        let mut w = World::new(self.world_seed, self.fault_permille, self.fault_mask);
        w.overrides = self.overrides.clone();
        w.list_scale = self.list_scale;
        w
    }
}

pub use crate::core::batch::Violation;

pub struct Parsed {
    pub schema: Valid<Schema>,
    pub doc: Valid<ExecutableDocument>,
}

pub fn parse(case: &Case) -> Result<Parsed, String> {
    let schema = Schema::parse_and_validate(&case.schema, "schema.graphql")
        .map_err(|e| format!("schema invalid: {}", first_line(&e.errors.to_string())))?;
    let doc = ExecutableDocument::parse_and_validate(&schema, &case.document, "op.graphql")
        .map_err(|e| format!("document invalid: {}", first_line(&e.errors.to_string())))?;
    Ok(Parsed { schema, doc })
}

fn first_line(s: &str) -> String {
    s.lines().next().unwrap_or("").to_string()
}

fn vars_map(case: &Case) -> JsonMap {
    match sim::to_bytes_json(&case.variables) {
        apollo_compiler::response::JsonValue::Object(m) => m,
        _ => JsonMap::new(),
    }
}

pub struct RealRun {
    /// Ok(response JSON) or Err(request error message)
    pub response: Result<J, String>,
    pub calls: Vec<CallRec>,
    pub world: World,
    pub schedule: Schedule,
    pub event_digest: String,
    pub trace: Option<Vec<String>>,
    pub discipline: Vec<String>,
    pub stats: sim::Stats,
    pub live_at_end: usize,
    pub end: &'static str,
}

fn response_json(r: &ExecutionResponse) -> J {
    let mut j = serde_json::to_value(r).expect("response serialises");
    // the response type is also `Deserialize`: what was written must read back as the same value
    let back: Result<ExecutionResponse, _> = serde_json::from_value(j.clone());
    if !matches!(&back, Ok(b) if b == r) {
        if let Some(m) = j.as_object_mut() {
            m.insert("__verif_roundtrip_mismatch".into(), J::Bool(true));
        }
    }
    j
}

/// Spec section 7.1 response format, plus apollo-compiler's own marker for "cannot happen on a valid
/// document": checked on every executed response, whatever the resolvers did
fn response_format_problem(resp: &J) -> Option<String> {
    let obj = resp.as_object()?;
    if obj.contains_key("__verif_roundtrip_mismatch") {
        return Some("serialised response does not deserialise to the same ExecutionResponse".into());
    }
    if !obj.contains_key("data") {
        return Some("no `data` entry although execution started".into());
    }
    if !(obj["data"].is_null() || obj["data"].is_object()) {
        return Some("`data` is neither null nor an object".into());
    }
    if let Some(k) = obj.keys().find(|k| !matches!(k.as_str(), "data" | "errors" | "extensions")) {
        return Some(format!("unexpected top-level entry `{k}`"));
    }
    match obj.get("errors") {
        None => {}
        Some(J::Array(a)) if a.is_empty() => return Some("`errors` present but empty".into()),
        Some(J::Array(a)) => {
            for e in a {
                let Some(e) = e.as_object() else { return Some("an error is not an object".into()) };
                if !e.get("message").and_then(|m| m.as_str()).is_some_and(|m| !m.is_empty()) {
                    return Some("an error has no message".into());
                }
                if !e.get("path").and_then(|p| p.as_array()).is_some_and(|p| !p.is_empty()) {
                    return Some(format!("field error without a path: {}", J::Object(e.clone())));
                }
                if e.get("extensions").and_then(|x| x.get("APOLLO_SUSPECTED_VALIDATION_BUG")).is_some() {
                    return Some(format!(
                        "error flagged APOLLO_SUSPECTED_VALIDATION_BUG on a document that passed validation: {}",
                        J::Object(e.clone())
                    ));
                }
            }
        }
        Some(_) => return Some("`errors` is not a list".into()),
    }
    None
}

thread_local! {
    static LAST_PANIC: std::cell::RefCell<Option<String>> = const { std::cell::RefCell::new(None) };
}

pub fn install_quiet_panic_hook() {
    std::panic::set_hook(Box::new(|info| {
        let _untracked = ();
        let msg = if let Some(s) = info.payload().downcast_ref::<&str>() {
            s.to_string()
        } else if let Some(s) = info.payload().downcast_ref::<String>() {
            s.clone()
        } else {
            "<non-string panic>".to_string()
        };
        let loc = info
            .location()
            .map(|l| format!(" at {}:{}", l.file(), l.line()))
            .unwrap_or_default();
        crate::simalloc::untracked(|| {
            LAST_PANIC.with(|p| *p.borrow_mut() = Some(format!("{msg}{loc}")));
        });
    }));
}

pub fn take_last_panic() -> String {
    LAST_PANIC
        .with(|p| p.borrow_mut().take())
        .unwrap_or_else(|| "<no message>".into())
}

/// Salt of the hash-key stream used by the real executions (0 in ordinary runs): every
/// `ahash::RandomState` the code under test creates during a run gets keys that are a function of
/// (case, salt, creation index), never of the OS — so a run is repeatable even if the code
/// iterates a hash map — and `check_c26` re-executes some requests under another salt.
static KEY_SALT: std::sync::atomic::AtomicU64 = std::sync::atomic::AtomicU64::new(0);

fn arm_hash_keys(case: &Case) {
    let salt = KEY_SALT.load(std::sync::atomic::Ordering::SeqCst);
    ahash::sim::set_stream(Some(mix(&[case.world_seed, 0x4A5E, salt])));
}

pub fn run_sync(case: &Case, p: &Parsed, trace: bool) -> Result<RealRun, Violation> {
    arm_hash_keys(case);
    let op = match p.doc.operations.get(case.operation_name.as_deref()) {
        Ok(op) => op,
        Err(e) => {
            return Err(Violation {
                class: "harness".into(),
                detail: format!("operation lookup: {}", e.message()),
            })
        }
    };
    let shared = Inner::new(case.world(), Schedule::ready(), op.is_mutation(), trace);
    let root = sim::SyncObj {
        shared: shared.clone(),
        path: String::new(),
        type_name: op.object_type().to_string(),
    };
    let vars = vars_map(case);
    // the builder's alternative entry points, chosen by the case (a pure function of it):
    // pre-coerced variables, and a pre-computed implementers map
    let variant = case.world_seed & 3;
    let imap = p.schema.implementers_map();
    let coerced = if variant & 1 == 1 {
        coerce_variable_values(&p.schema, op, &vars).ok()
    } else {
        None
    };
    let result = std::panic::catch_unwind(AssertUnwindSafe(|| {
        let mut exec = Execution::new(&p.schema, &p.doc)
            .operation(op)
            .enable_schema_introspection(case.introspection);
        exec = match &coerced {
            Some(c) => exec.coerced_variable_values(c),
            None => exec.raw_variable_values(&vars),
        };
        if variant & 2 == 2 {
            exec = exec.implementers_map(&imap);
        }
        exec.execute_sync(&root)
    }));
    drop(root);
    let result = match result {
        Ok(r) => r,
        Err(_) => {
            return Err(Violation {
                class: "panic_sync".into(),
                detail: take_last_panic(),
            })
        }
    };
    let mut g = shared.lock().unwrap();
    Ok(RealRun {
        response: result
            .map(|r| response_json(&r))
            .map_err(|e| e.message().to_string()),
        calls: std::mem::take(&mut g.calls),
        world: g.world.fork_with_records(),
        schedule: Schedule::ready(),
        event_digest: g.log.hex(),
        trace: g.trace.take(),
        discipline: std::mem::take(&mut g.discipline),
        stats: std::mem::take(&mut g.stats),
        live_at_end: g.live_count(),
        end: "done",
    })
}

pub fn run_async(case: &Case, p: &Parsed, trace: bool) -> Result<RealRun, Violation> {
    arm_hash_keys(case);
    let op = p
        .doc
        .operations
        .get(case.operation_name.as_deref())
        .map_err(|e| Violation {
            class: "harness".into(),
            detail: format!("operation lookup: {}", e.message()),
        })?;
    let shared = Inner::new(case.world(), case.schedule.clone(), op.is_mutation(), trace);
    let root = sim::AsyncObj {
        shared: shared.clone(),
        path: String::new(),
        type_name: op.object_type().to_string(),
    };
    let vars = vars_map(case);
    let poll_cap = 200_000u64;
    // the async run takes the *other* entry points than the sync run of the same case
    let variant = !case.world_seed & 3;
    let imap = p.schema.implementers_map();
    let coerced = if variant & 1 == 1 {
        coerce_variable_values(&p.schema, op, &vars).ok()
    } else {
        None
    };
    let result = std::panic::catch_unwind(AssertUnwindSafe(|| {
        let mut exec = Execution::new(&p.schema, &p.doc)
            .operation(op)
            .enable_schema_introspection(case.introspection);
        exec = match &coerced {
            Some(c) => exec.coerced_variable_values(c),
            None => exec.raw_variable_values(&vars),
        };
        if variant & 2 == 2 {
            exec = exec.implementers_map(&imap);
        }
        let fut = exec.execute_async(&root);
        let mut fut = std::pin::pin!(fut);
        sim::run_to_completion(&shared, fut.as_mut(), poll_cap)
    }));
    drop(root);
    let end = match result {
        Ok(end) => end,
        Err(_) => {
            return Err(Violation {
                class: "panic_async".into(),
                detail: take_last_panic(),
            })
        }
    };
    let mut g = shared.lock().unwrap();
    let (response, end_name) = match end {
        RunEnd::Done(r) => (
            r.map(|r| response_json(&r))
                .map_err(|e| e.message().to_string()),
            "done",
        ),
        RunEnd::LostWakeup => (Err("<lost wake-up>".into()), "lost_wakeup"),
        RunEnd::PollCap => (Err("<poll cap>".into()), "poll_cap"),
    };
    Ok(RealRun {
        response,
        calls: std::mem::take(&mut g.calls),
        world: g.world.fork_with_records(),
        schedule: g.schedule.clone(),
        event_digest: g.log.hex(),
        trace: g.trace.take(),
        discipline: std::mem::take(&mut g.discipline),
        stats: std::mem::take(&mut g.stats),
        live_at_end: g.live_count(),
        end: end_name,
    })
}

impl World {
    fn fork_with_records(&mut self) -> World {
        World {
            seed: self.seed,
            fault_permille: self.fault_permille,
            mask: self.mask,
            list_scale: self.list_scale,
            overrides: self.overrides.clone(),
            consulted: std::mem::take(&mut self.consulted),
            fired: std::mem::take(&mut self.fired),
        }
    }
}

// ---------------------------------------------------------------------------------------------
// Case generation

pub const ALL_FAULTS: u32 = (1 << world::FAULT_KINDS.len()) - 1;

pub struct GenCfg {
    /// C26: schedule trivial. C27: scripted.
    pub with_schedule: bool,
}

pub fn gen_case(run_seed: u64, cfg: &GenCfg) -> Case {
    let mut wl = Rng::split(run_seed, "workload");
    let req = gen::gen_request(&mut wl);
    let mut fr = Rng::split(run_seed, "faults");
    // swarm: per-run fault rate and enabled kinds
    let (fault_permille, fault_mask) = match fr.below(10) {
        0 | 1 => (0, 0), // fault-free configuration
        2..=4 => (60, ALL_FAULTS),
        5..=6 => (150, ALL_FAULTS),
        7 => (300, ALL_FAULTS),
        _ => {
            // random subset of kinds
            let mut m = 0u32;
            for i in 0..world::FAULT_KINDS.len() {
                if fr.chance(1, 3) {
                    m |= 1 << i;
                }
            }
            (200, m)
        }
    };
    let mut sr = Rng::split(run_seed, "schedule");
    let schedule = if cfg.with_schedule {
        Schedule {
            seed: sr.next_u64(),
            max_pending: *sr.pick(&[1, 2, 2, 3, 4]),
            pending_permille: 600,
            spurious_permille: *sr.pick(&[0, 0, 50, 200]),
            strict_wakers: sr.chance(1, 3),
            ..Default::default()
        }
    } else {
        Schedule::ready()
    };
    Case {
        schema: req.schema,
        document: req.document,
        operation_name: req.operation_name,
        variables: req.variables,
        introspection: req.introspection,
        world_seed: mix(&[run_seed, 0xC0FFEE]),
        fault_permille,
        fault_mask,
        list_scale: 0,
        overrides: BTreeMap::new(),
        schedule,
    }
}

// ---------------------------------------------------------------------------------------------
// C26

fn path_string(path: &[ResponseDataPathSegment]) -> String {
    path.iter()
        .map(|s| match s {
            ResponseDataPathSegment::Field(n) => n.to_string(),
            ResponseDataPathSegment::ListIndex(i) => i.to_string(),
        })
        .collect::<Vec<_>>()
        .join("/")
}

fn json_path_string(path: &J) -> String {
    path.as_array()
        .map(|a| {
            a.iter()
                .map(|s| match s {
                    J::String(s) => s.clone(),
                    other => other.to_string(),
                })
                .collect::<Vec<_>>()
                .join("/")
        })
        .unwrap_or_default()
}

fn error_paths(resp: &J) -> Vec<String> {
    resp.get("errors")
        .and_then(|e| e.as_array())
        .map(|errs| {
            errs.iter()
                .map(|e| json_path_string(e.get("path").unwrap_or(&J::Null)))
                .collect()
        })
        .unwrap_or_default()
}

/// (line, column) pairs of every error, in response order
fn error_locations(resp: &J) -> Vec<Vec<(usize, usize)>> {
    resp.get("errors")
        .and_then(|e| e.as_array())
        .map(|errs| {
            errs.iter()
                .map(|e| {
                    e.get("locations")
                        .and_then(|l| l.as_array())
                        .map(|l| {
                            l.iter()
                                .map(|lc| {
                                    (
                                        lc.get("line").and_then(|v| v.as_u64()).unwrap_or(0) as usize,
                                        lc.get("column").and_then(|v| v.as_u64()).unwrap_or(0) as usize,
                                    )
                                })
                                .collect()
                        })
                        .unwrap_or_default()
                })
                .collect()
        })
        .unwrap_or_default()
}

fn is_prefix(prefix: &str, path: &str) -> bool {
    prefix.is_empty()
        || path == prefix
        || (path.starts_with(prefix) && path.as_bytes().get(prefix.len()) == Some(&b'/'))
}

/// Walk `data` along `path`; returns the value found, or where the walk stopped
enum Walk<'a> {
    Found(&'a J),
    HitNull,
    Missing,
}

fn walk<'a>(data: &'a J, path: &str) -> Walk<'a> {
    let mut cur = data;
    if path.is_empty() {
        return Walk::Found(cur);
    }
    for seg in path.split('/') {
        match cur {
            J::Null => return Walk::HitNull,
            J::Object(m) => match m.get(seg) {
                Some(v) => cur = v,
                None => return Walk::Missing,
            },
            J::Array(a) => match seg.parse::<usize>().ok().and_then(|i| a.get(i)) {
                Some(v) => cur = v,
                None => return Walk::Missing,
            },
            _ => return Walk::Missing,
        }
    }
    Walk::Found(cur)
}

fn visit_nulls(v: &J, path: &mut String, f: &mut impl FnMut(&str)) {
    match v {
        J::Null => f(path),
        J::Object(m) => {
            for (k, v) in m {
                let len = path.len();
                if !path.is_empty() {
                    path.push('/');
                }
                path.push_str(k);
                visit_nulls(v, path, f);
                path.truncate(len);
            }
        }
        J::Array(a) => {
            for (i, v) in a.iter().enumerate() {
                let len = path.len();
                if !path.is_empty() {
                    path.push('/');
                }
                path.push_str(&i.to_string());
                visit_nulls(v, path, f);
                path.truncate(len);
            }
        }
        _ => {}
    }
}

fn first_diff(a: &J, b: &J, path: &str) -> Option<String> {
    match (a, b) {
        (J::Object(x), J::Object(y)) => {
            let kx: Vec<&String> = x.keys().collect();
            let ky: Vec<&String> = y.keys().collect();
            if kx != ky {
                return Some(format!("object keys differ | {path}: keys {kx:?} vs {ky:?}"));
            }
            for (k, v) in x {
                if let Some(d) = first_diff(v, &y[k], &format!("{path}/{k}")) {
                    return Some(d);
                }
            }
            None
        }
        (J::Array(x), J::Array(y)) => {
            if x.len() != y.len() {
                return Some(format!("list lengths differ | {path}: list length {} vs {}", x.len(), y.len()));
            }
            for (i, (v, w)) in x.iter().zip(y).enumerate() {
                if let Some(d) = first_diff(v, w, &format!("{path}/{i}")) {
                    return Some(d);
                }
            }
            None
        }
        _ => {
            if a == b {
                None
            } else {
                let kind = |v: &J| match v {
                    J::Null => "null",
                    J::Bool(_) => "bool",
                    J::Number(_) => "number",
                    J::String(_) => "string",
                    J::Array(_) => "list",
                    J::Object(_) => "object",
                };
                Some(format!("{} vs {} | {path}: {a} vs {b}", kind(a), kind(b)))
            }
        }
    }
}

fn viol(class: &str, detail: String) -> Option<Violation> {
    Some(Violation {
        class: class.to_string(),
        detail,
    })
}

pub struct C26Outcome {
    pub violation: Option<Violation>,
    pub real: Option<RealRun>,
    pub equals_m_errors: bool,
    pub request_error: bool,
    pub unsupported: bool,
    pub propagated_to_root: bool,
    /// the request was executed a second time under another hash-key stream
    pub rekeyed: bool,
    /// union of the world outcomes consulted by the real run and both reference runs
    pub consulted: BTreeMap<String, world::Outcome>,
    /// rows of the reference executor's decision table reached by model M
    pub model_rows: BTreeMap<&'static str, u64>,
}

/// Run the real synchronous executor and the reference executor over the same world; compare.
pub fn check_c26(case: &Case, p: &Parsed, trace: bool) -> C26Outcome {
    let mut out = C26Outcome {
        violation: None,
        real: None,
        equals_m_errors: false,
        request_error: false,
        unsupported: false,
        propagated_to_root: false,
        rekeyed: false,
        consulted: BTreeMap::new(),
        model_rows: BTreeMap::new(),
    };
    let real = match run_sync(case, p, trace) {
        Ok(r) => r,
        Err(v) => {
            out.violation = Some(v);
            return out;
        }
    };
    let op = p
        .doc
        .operations
        .get(case.operation_name.as_deref())
        .expect("checked in run_sync");
    // Variable coercion is C28's subject: the real function is used for the model too.
    let coerced = coerce_variable_values(&p.schema, op, &vars_map(case));
    let coerced = match coerced {
        Err(e) => {
            out.request_error = true;
            if real.response.is_ok() {
                out.violation = viol(
                    "request_error_expected",
                    format!(
                        "variable coercion fails ({}) but execution produced a response",
                        e.message()
                    ),
                );
            } else if !real.calls.is_empty() {
                out.violation = viol(
                    "resolver_called_despite_request_error",
                    format!("{} resolver calls", real.calls.len()),
                );
            }
            out.real = Some(real);
            return out;
        }
        Ok(c) => c,
    };
    let vars = match sim::from_bytes_json(&apollo_compiler::response::JsonValue::Object(
        coerced.into_inner(),
    )) {
        J::Object(m) => m,
        _ => unreachable!(),
    };
    let resp = match &real.response {
        Ok(r) => r.clone(),
        Err(e) => {
            out.violation = viol("unexpected_request_error", e.clone());
            out.real = Some(real);
            return out;
        }
    };
    let run_model = |early_exit: bool| {
        let mut m = model::Model {
            schema: &p.schema,
            doc: &p.doc,
            vars: &vars,
            world: case.world(),
            early_exit,
            introspection: case.introspection,
            errors: vec![],
            error_locs: vec![],
            calls: vec![],
            positions: BTreeMap::new(),
            nullified: Default::default(),
            unsupported: None,
            skipped_items: Default::default(),
            rows: Default::default(),
        };
        let r = m.execute(case.operation_name.as_deref());
        (m, r)
    };
    let (m, mr) = run_model(true);
    let (f, _fr) = run_model(false);
    out.model_rows = m.rows.borrow().clone();
    out.consulted = f.world.consulted.clone();
    out.consulted.extend(m.world.consulted.clone());
    out.consulted.extend(real.world.consulted.clone());
    let mr = match mr {
        Ok(r) => r,
        Err(e) => {
            out.violation = viol("harness", format!("model request error: {e}"));
            out.real = Some(real);
            return out;
        }
    };
    if m.unsupported.is_some() || f.unsupported.is_some() {
        out.unsupported = true;
        out.real = Some(real);
        return out;
    }
    out.propagated_to_root = mr.data.is_none();
    let real_data = resp.get("data").cloned().unwrap_or(J::Null);
    let model_data = mr.data.clone().unwrap_or(J::Null);
    out.violation = (|| {
        // 0. response format
        if let Some(problem) = response_format_problem(&resp) {
            return viol("response_format", format!("malformed response | {problem}"));
        }
        // 1. data: exact, key order included
        if let Some(d) = first_diff(&real_data, &model_data, "data") {
            return viol("data_differs_from_reference", format!("real vs reference: {d}"));
        }
        // 2. data == null ⇔ the model propagated to the root
        if real_data.is_null() != mr.data.is_none() {
            return viol(
                "data_null_iff_root_propagation",
                format!("real data null: {}, model: {}", real_data.is_null(), mr.data.is_none()),
            );
        }
        // 3. no null at a non-null position (typing from the model's walk, data from the real run)
        // positions are recorded with stream indices; `data` lacks skipped list items
        let data_positions: BTreeMap<String, bool> = m
            .positions
            .iter()
            .filter_map(|(p, nn)| model::to_data_path(&m.skipped_items, p).map(|d| (d, *nn)))
            .collect();
        let mut bad = None;
        visit_nulls(&real_data, &mut String::new(), &mut |path| {
            if bad.is_none() && data_positions.get(path) == Some(&true) {
                bad = Some(path.to_string());
            }
        });
        if let Some(pth) = bad {
            return viol("null_at_non_null_position", format!("data/{pth}"));
        }
        // 4. errors ⊆ F as multisets of paths
        let real_errs = error_paths(&resp);
        let mut f_count: BTreeMap<&str, i64> = BTreeMap::new();
        for e in &f.errors {
            *f_count.entry(e.as_str()).or_default() += 1;
        }
        for e in &real_errs {
            let c = f_count.entry(e.as_str()).or_default();
            *c -= 1;
            if *c < 0 {
                return viol(
                    "error_not_in_reference",
                    format!(
                        "error path `{e}` reported by the executor is not produced by the reference executor without cancellation (reference errors: {:?})",
                        f.errors
                    ),
                );
            }
        }
        // 5. every nullified position is explained by an error at or below it
        for pos in &m.nullified {
            if !real_errs.iter().any(|e| is_prefix(pos, e)) {
                return viol(
                    "null_without_error",
                    format!(
                        "position `{pos}` is null because of a field error in the reference, but no error at or below it was reported (reported: {real_errs:?})"
                    ),
                );
            }
        }
        // 6. every error's path addresses a null position or lies below one
        for e in &real_errs {
            // F knows every skipped item M knows, and more (it executes more)
            let Some(e_data) = model::to_data_path(&f.skipped_items, e) else {
                return viol(
                    "error_path_dangling",
                    format!("error path `{e}` addresses a list item that was skipped"),
                );
            };
            match walk(&real_data, &e_data) {
                Walk::Found(J::Null) | Walk::HitNull => {}
                Walk::Found(v) => {
                    return viol(
                        "error_path_not_null",
                        format!("error path `{e}` addresses non-null value {v}"),
                    )
                }
                Walk::Missing => {
                    return viol(
                        "error_path_dangling",
                        format!("error path `{e}` addresses nothing in data"),
                    )
                }
            }
        }
        // 7. resolver calls: same positions, parent types, fields and coerced arguments as the
        //    reference (M); for mutations the root-level order must be document order.
        //    Order below the root is compared in C27 (sync vs async), not here: the spec leaves it open.
        let key = |c: &CallRec| format!("{}|{}.{}", c.path, c.parent_type, c.field);
        let real_map: BTreeMap<String, &CallRec> = real
            .calls
            .iter()
            .filter(|c| c.field != "<list item>")
            .map(|c| (key(c), c))
            .collect();
        let m_map: BTreeMap<String, &CallRec> = m.calls.iter().map(|c| (key(c), c)).collect();
        let f_map: BTreeMap<String, &CallRec> = f.calls.iter().map(|c| (key(c), c)).collect();
        for (k, c) in &real_map {
            match f_map.get(k) {
                None => {
                    return viol(
                        "unexpected_resolver_call",
                        format!("resolver called at {k}, which the reference never resolves"),
                    )
                }
                Some(fc) => {
                    if fc.args != c.args {
                        return viol(
                            "coerced_arguments_differ",
                            format!("at {k}: real {} vs reference {}", c.args, fc.args),
                        );
                    }
                    if fc.sels != c.sels {
                        return viol(
                            "field_selections_differ",
                            format!(
                                "ResolveInfo::field_selections() differs from the reference's merged group | at {k}: real {:?} vs reference {:?} (start offsets of the field names)",
                                c.sels, fc.sels
                            ),
                        );
                    }
                }
            }
        }
        if real_data != J::Null {
            // without root propagation every call of M contributes to data and must have happened
            for k in m_map.keys() {
                if !real_map.contains_key(k) && !m.nullified.iter().any(|n| is_prefix(n, k.split('|').next().unwrap())) {
                    return viol("missing_resolver_call", format!("no resolver call at {k}"));
                }
            }
        }
        if op.is_mutation() {
            let roots = |calls: &[CallRec]| -> Vec<String> {
                calls
                    .iter()
                    .filter(|c| !c.path.contains('/') && c.field != "<list item>")
                    .map(|c| c.path.clone())
                    .collect()
            };
            let (r, mm) = (roots(&real.calls), roots(&m.calls));
            if r != mm {
                return viol(
                    "mutation_root_order",
                    format!("root fields resolved in order {r:?}, document order is {mm:?}"),
                );
            }
        }
        // 8. Between the two references: every error of M (apollo-compiler's cancellation: stop a
        //    selection set / a list at the first propagating failure) must have been reported —
        //    nothing that execution order makes unavoidable may be swallowed — and (check 4) nothing
        //    beyond F (no cancellation at all) may appear. The spec allows either policy ("may be
        //    cancelled to avoid unnecessary work"), so an executor that cancels less than today's
        //    is not flagged; world 0 (no faults) has M = F anyway.
        {
            let mut have: BTreeMap<&str, i64> = BTreeMap::new();
            for e in &real_errs {
                *have.entry(e.as_str()).or_default() += 1;
            }
            for e in &m.errors {
                let c = have.entry(e.as_str()).or_default();
                *c -= 1;
                if *c < 0 {
                    return viol(
                        "errors_differ_from_reference",
                        format!(
                            "fewer errors than the reference | error at `{e}` is produced by the reference executor even with every permitted cancellation, but was not reported (reported: {real_errs:?})"
                        ),
                    );
                }
            }
        }
        // 9. locations ("with path and locations filled in"): every error is located at the name
        //    of a field of its group (one or several of the merged fields); argument-coercion
        //    errors at most once, not before the first of them
        {
            let mut expected: Vec<(&String, &model::ErrLoc, bool)> =
                m.errors.iter().zip(&m.error_locs).map(|(p, l)| (p, l, false)).collect();
            for (path, locs) in error_paths(&resp).iter().zip(error_locations(&resp)) {
                let hit = expected.iter_mut().find(|(p, l, used)| {
                    !*used
                        && *p == path
                        && match l {
                            model::ErrLoc::FieldName(group) => !locs.is_empty() && locs.iter().all(|lc| group.contains(lc)),
                            model::ErrLoc::Argument(line, col) => {
                                locs.len() <= 1 && locs.iter().all(|lc| *lc >= (*line, *col))
                            }
                            model::ErrLoc::Unknown => true,
                        }
                });
                match hit {
                    Some(e) => e.2 = true,
                    None => {
                        let want: Vec<&model::ErrLoc> =
                            expected.iter().filter(|(p, _, _)| *p == path).map(|e| e.1).collect();
                        return viol(
                            "error_location_differs",
                            format!("error location is not that of the field it belongs to | path `{path}`: reported {locs:?}, reference {want:?}"),
                        );
                    }
                }
            }
        }
        None
    })();
    // 12. the response (messages and locations included) must not depend on the hash keys the
    //     process happens to have: requests whose response carries errors — where a choice of
    //     "which problem is reported" can hide — are executed again under another key stream
    if out.violation.is_none() && resp.get("errors").is_some() && (m.errors.len() > 1 || case.world_seed % 4 == 0 || m.rows.borrow().contains_key("field.argument_coercion_error")) {
        KEY_SALT.store(1, std::sync::atomic::Ordering::SeqCst);
        let again = run_sync(case, p, false);
        KEY_SALT.store(0, std::sync::atomic::Ordering::SeqCst);
        out.rekeyed = true;
        if let Ok(again) = again {
            if again.response.as_ref().ok() != Some(&resp) {
                let d = match &again.response {
                    Ok(r2) => first_diff(&resp, r2, "response").unwrap_or_default(),
                    Err(e) => format!("request error {e}"),
                };
                out.violation = viol(
                    "response_depends_on_hash_keys",
                    format!("the same request executed under two hash-key streams gives two responses | {d}"),
                );
            }
        }
    }
    let mut a = error_paths(&resp);
    let mut b = m.errors.clone();
    a.sort();
    b.sort();
    out.equals_m_errors = a == b;
    out.real = Some(real);
    out
}

// ---------------------------------------------------------------------------------------------
// C27

pub struct C27Outcome {
    pub violation: Option<Violation>,
    pub sync: Option<RealRun>,
    pub asyn: Option<RealRun>,
}

pub fn check_c27(case: &Case, p: &Parsed, trace: bool) -> C27Outcome {
    let mut out = C27Outcome {
        violation: None,
        sync: None,
        asyn: None,
    };
    let sync = match run_sync(case, p, trace) {
        Ok(r) => r,
        Err(v) => {
            out.violation = Some(v);
            return out;
        }
    };
    let asyn = match run_async(case, p, trace) {
        Ok(r) => r,
        Err(v) => {
            out.violation = Some(v);
            out.sync = Some(sync);
            return out;
        }
    };
    out.violation = (|| {
        match asyn.end {
            "lost_wakeup" => {
                return viol(
                    "lost_wakeup",
                    "execute_async is pending, was not woken, and no timer is outstanding".into(),
                )
            }
            "poll_cap" => return viol("no_progress", "poll budget exhausted".into()),
            _ => {}
        }
        if let Some(d) = asyn.discipline.first() {
            let class = d.split(':').next().unwrap_or("discipline").to_string();
            return Some(Violation {
                class,
                detail: d.clone(),
            });
        }
        if asyn.live_at_end != 0 {
            return viol(
                "future_leaked",
                format!(
                    "{} sim futures/streams neither completed nor dropped when execute_async returned",
                    asyn.live_at_end
                ),
            );
        }
        match (&sync.response, &asyn.response) {
            (Ok(a), Ok(b)) => {
                if a != b {
                    let d = first_diff(a, b, "response").unwrap_or_default();
                    return viol("sync_async_response_differs", format!("sync vs async: {d}"));
                }
            }
            (Err(a), Err(b)) => {
                if a != b {
                    return viol(
                        "sync_async_response_differs",
                        format!("request errors differ: {a} vs {b}"),
                    );
                }
            }
            (a, b) => {
                return viol(
                    "sync_async_response_differs",
                    format!("sync {:?} vs async {:?}", a.is_ok(), b.is_ok()),
                )
            }
        }
        if sync.calls != asyn.calls {
            let i = sync
                .calls
                .iter()
                .zip(&asyn.calls)
                .position(|(a, b)| a != b)
                .unwrap_or(sync.calls.len().min(asyn.calls.len()));
            return viol(
                "resolver_call_order_differs",
                format!(
                    "call #{i}: sync {:?} vs async {:?} (lengths {} / {})",
                    sync.calls.get(i).map(|c| &c.path),
                    asyn.calls.get(i).map(|c| &c.path),
                    sync.calls.len(),
                    asyn.calls.len()
                ),
            );
        }
        None
    })();
    out.sync = Some(sync);
    out.asyn = Some(asyn);
    out
}

pub fn case_digest(case: &Case) -> u64 {
    let mut d = Digest::new();
    d.update_str(&case.schema);
    d.update_str(&case.document);
    d.update_str(&case.variables.to_string());
    d.update_u64(case.world_seed);
    d.update_u64(case.fault_permille as u64);
    d.update_u64(case.fault_mask as u64);
    d.update_u64(case.introspection as u64);
    d.update_u64(case.list_scale as u64);
    for (k, o) in &case.overrides {
        d.update_str(k);
        d.update_str(&world::outcome_to_json(o).to_string());
    }
    d.u64()
}

#[allow(dead_code)]
pub fn path_of(path: &[ResponseDataPathSegment]) -> String {
    path_string(path)
}
