#!/usr/bin/env bash
# Run a registered check against a seeded change: apply to /repo, run, undo straight afterwards.
# usage: run_against.sh <patch.diff> <Cxx> [quick|thorough]
set -u
PATCH="$(readlink -f "$1")"; PROP="$2"; TIER="${3:-quick}"
if [ -n "$(git -C /repo status --porcelain --untracked-files=no)" ]; then echo "/repo is not clean" >&2; exit 2; fi
trap 'git -C /repo checkout -q -- .' EXIT
git -C /repo apply "$PATCH" || exit 2
export VERIF_EVIDENCE_DIR=/verif/harness/target/seeded-evidence VERIF_REPLAY_DIR=/verif/harness/target/seeded-replays
/verif/check "$PROP" "$TIER"
rc=$?
echo "check exit $rc"
exit $rc
