//! The resolver *world*: a pure function
//! `outcome = W(world seed, response path, parent type, field name)` — a keyed hash, not a stream
//! position — so the outcome at a position does not depend on how many other positions were
//! consulted or in which order. Synchronous resolvers, asynchronous resolvers and the reference
//! executor all consult the same world.
//!
//! Explicit `overrides` (from a replay file or from the minimiser) take precedence over generation.

use crate::core::rng::hash_str;
use crate::core::rng::mix;
use crate::core::rng::Rng;
use apollo_compiler::schema::ExtendedType;
use apollo_compiler::schema::Type;
use apollo_compiler::Schema;
use serde_json::json;
use serde_json::Value as J;
use std::collections::BTreeMap;

#[derive(Clone, Debug, PartialEq)]
pub enum Hint {
    Exact,
    Zero,
    Low,
}

#[derive(Clone, Debug, PartialEq)]
pub enum Val {
    Leaf(J),
    Object(String),
    List(Vec<Result<Val, String>>, Hint),
    Skip,
}

pub type Outcome = Result<Val, String>;

pub const FAULT_KINDS: &[&str] = &[
    "resolver_error",       // 0
    "null_at_non_null",     // 1
    "item_error",           // 2
    "item_null_at_non_null", // 3
    "leaf_for_composite",   // 4
    "object_for_leaf",      // 5
    "list_for_nonlist",     // 6
    "nonlist_for_list",     // 7
    "wrong_scalar",         // 8
    "undefined_enum_value", // 9
    "unknown_object_type",  // 10
    "foreign_object_type",  // 11
    "skip_for_partial_execution", // 12
];
/// not faults, but worth counting: conforming outcomes of special interest
pub const NOTE_KINDS: &[&str] = &[
    "null_at_nullable",
    "empty_list",
    "custom_scalar_structured",
    "abstract_type_object",
    "size_hint_lies",
    "big_list",
];

#[derive(Clone, Debug)]
pub struct World {
    pub seed: u64,
    /// probability of a fault at each generated position, in 1/1000
    pub fault_permille: u32,
    /// enabled fault kinds, bit i = FAULT_KINDS[i]
    pub mask: u32,
    /// swarm knob: 0 = lists of 0-3 items; 1 = top-level lists up to 40; 2 = up to 300
    /// (thresholds such as "every 64 / 128 fields" are otherwise never crossed)
    pub list_scale: u32,
    pub overrides: BTreeMap<String, Outcome>,
    /// outcomes actually consulted in this run (key → outcome), for the replay file
    pub consulted: BTreeMap<String, Outcome>,
    pub fired: BTreeMap<&'static str, u64>,
}

pub fn key_of(path: &str, parent_type: &str, field: &str) -> String {
    format!("{path}|{parent_type}.{field}")
}

impl World {
    pub fn new(seed: u64, fault_permille: u32, mask: u32) -> Self {
        World {
            seed,
            fault_permille,
            mask,
            list_scale: 0,
            overrides: BTreeMap::new(),
            consulted: BTreeMap::new(),
            fired: BTreeMap::new(),
        }
    }

    /// Fresh copy for another executor over the same world (same outcomes, empty records)
    pub fn fork(&self) -> Self {
        World {
            seed: self.seed,
            fault_permille: self.fault_permille,
            mask: self.mask,
            list_scale: self.list_scale,
            overrides: self.overrides.clone(),
            consulted: BTreeMap::new(),
            fired: BTreeMap::new(),
        }
    }

    pub fn resolve(
        &mut self,
        schema: &Schema,
        path: &str,
        parent_type: &str,
        field: &str,
        ty: &Type,
    ) -> Outcome {
        let key = key_of(path, parent_type, field);
        if let Some(o) = self.consulted.get(&key) {
            return o.clone();
        }
        let out = if let Some(o) = self.overrides.get(&key) {
            o.clone()
        } else {
            let mut rng = Rng::new(mix(&[
                self.seed,
                hash_str(path),
                hash_str(parent_type),
                hash_str(field),
            ]));
            let mut fired = vec![];
            // long lists only for root fields: nested long lists multiply
            let depth0 = if path.contains('/') { 1 } else { 0 };
            let o = self.gen(schema, ty, &mut rng, depth0, true, &mut fired);
            for f in fired {
                *self.fired.entry(f).or_default() += 1;
            }
            o
        };
        self.consulted.insert(key, out.clone());
        out
    }

    fn enabled(&self, kind: usize) -> bool {
        self.mask & (1 << kind) != 0
    }

    fn gen(
        &self,
        schema: &Schema,
        ty: &Type,
        rng: &mut Rng,
        depth: u32,
        top: bool,
        fired: &mut Vec<&'static str>,
    ) -> Outcome {
        let named = ty.inner_named_type();
        let def = schema.types.get(named);
        let is_list = ty.is_list();
        let composite = matches!(
            def,
            Some(ExtendedType::Object(_) | ExtendedType::Interface(_) | ExtendedType::Union(_))
        );
        if self.fault_permille > 0 && rng.below(1000) < self.fault_permille as u64 {
            // candidates applicable here
            let mut cands: Vec<usize> = vec![];
            let push = |k: usize, c: &mut Vec<usize>| {
                if self.enabled(k) {
                    c.push(k)
                }
            };
            push(if top { 0 } else { 2 }, &mut cands);
            if ty.is_non_null() {
                push(if top { 1 } else { 3 }, &mut cands);
            }
            if !is_list {
                if composite {
                    push(4, &mut cands);
                    push(10, &mut cands);
                    push(11, &mut cands);
                } else {
                    push(5, &mut cands);
                    push(8, &mut cands);
                    if matches!(def, Some(ExtendedType::Enum(_))) {
                        push(9, &mut cands);
                    }
                }
                push(6, &mut cands);
            } else {
                push(7, &mut cands);
            }
            // As a list item, SkipForPartialExecution drops the item from the response list while
            // error paths keep counting stream positions; the checks translate indices accordingly.
            push(12, &mut cands);
            if !cands.is_empty() {
                let k = *rng.pick(&cands);
                fired.push(FAULT_KINDS[k]);
                return match k {
                    0 | 2 => Err(format!("boom{}", rng.below(100))),
                    1 | 3 => Ok(Val::Leaf(J::Null)),
                    4 => Ok(Val::Leaf(json!("not-an-object"))),
                    5 => Ok(Val::Object(self.some_object(schema, rng))),
                    6 => {
                        let n = rng.below(3);
                        let items = (0..n)
                            .map(|_| self.conforming_named(schema, ty, rng, fired))
                            .collect();
                        Ok(Val::List(items, Hint::Exact))
                    }
                    7 => {
                        // the innermost named type's value where a list was expected
                        let inner = Type::Named(named.clone());
                        self.conforming_named(schema, &inner, rng, fired)
                    }
                    8 => Ok(Val::Leaf(self.wrong_scalar(named.as_str(), rng))),
                    9 => Ok(Val::Leaf(json!("NOT_A_VALUE"))),
                    10 => Ok(Val::Object("Ghost".into())),
                    11 => Ok(Val::Object(self.foreign_object(schema, named.as_str(), rng))),
                    _ => Ok(Val::Skip),
                };
            }
        }
        // conforming
        if !ty.is_non_null() && rng.chance(1, 8) {
            fired.push("null_at_nullable");
            return Ok(Val::Leaf(J::Null));
        }
        match ty {
            Type::List(inner) | Type::NonNullList(inner) => {
                let n = if depth >= 2 {
                    rng.below(3)
                } else if depth == 0 && top && self.list_scale > 0 && rng.chance(1, 2) {
                    fired.push("big_list");
                    match self.list_scale {
                        1 => rng.range(10, 40),
                        _ => rng.range(60, 300),
                    }
                } else {
                    rng.below(4)
                };
                if n == 0 {
                    fired.push("empty_list");
                }
                let items = (0..n)
                    .map(|_| self.gen(schema, inner, rng, depth + 1, false, fired))
                    .collect();
                let hint = match rng.below(6) {
                    0 => {
                        fired.push("size_hint_lies");
                        Hint::Zero
                    }
                    1 => {
                        fired.push("size_hint_lies");
                        Hint::Low
                    }
                    _ => Hint::Exact,
                };
                Ok(Val::List(items, hint))
            }
            Type::Named(_) | Type::NonNullNamed(_) => self.conforming_named(schema, ty, rng, fired),
        }
    }

    fn conforming_named(
        &self,
        schema: &Schema,
        ty: &Type,
        rng: &mut Rng,
        fired: &mut Vec<&'static str>,
    ) -> Outcome {
        let named = ty.inner_named_type();
        match schema.types.get(named) {
            Some(ExtendedType::Object(_)) => Ok(Val::Object(named.to_string())),
            Some(ExtendedType::Interface(_)) | Some(ExtendedType::Union(_)) => {
                let possible = possible_types(schema, named.as_str());
                if possible.is_empty() {
                    Ok(Val::Leaf(J::Null))
                } else {
                    fired.push("abstract_type_object");
                    Ok(Val::Object(rng.pick(&possible).clone()))
                }
            }
            Some(ExtendedType::Enum(e)) => {
                let vals: Vec<&str> = e.values.keys().map(|k| k.as_str()).collect();
                Ok(Val::Leaf(json!(*rng.pick(&vals))))
            }
            Some(ExtendedType::Scalar(_)) => Ok(Val::Leaf(match named.as_str() {
                "Int" => match rng.below(8) {
                    0 => json!(i32::MAX),
                    1 => json!(i32::MIN),
                    2 => json!(0),
                    _ => json!(rng.below(2000) as i64 - 1000),
                },
                "Float" => match rng.below(4) {
                    0 => json!(0.0),
                    1 => json!(-1.5e10),
                    _ => json!(rng.below(1000) as f64 / 8.0 + 0.5),
                },
                "String" => json!(format!("str{}", rng.below(10))),
                "Boolean" => json!(rng.chance(1, 2)),
                "ID" => {
                    if rng.chance(1, 2) {
                        json!(format!("id{}", rng.below(10)))
                    } else {
                        json!(rng.below(1000))
                    }
                }
                _ => match rng.below(5) {
                    0 => {
                        fired.push("custom_scalar_structured");
                        json!({"k": [1, "two", null], "z": {"a": true}})
                    }
                    1 => {
                        fired.push("custom_scalar_structured");
                        json!([1, [2, 3]])
                    }
                    2 => json!(12.25),
                    3 => json!("blob"),
                    _ => json!(true),
                },
            })),
            _ => Ok(Val::Leaf(J::Null)),
        }
    }

    fn wrong_scalar(&self, named: &str, rng: &mut Rng) -> J {
        match named {
            "Int" => match rng.below(5) {
                0 => json!("12"),
                1 => json!(1i64 << 31),
                2 => json!(-(1i64 << 31) - 1),
                3 => json!(1.0),
                _ => json!(u64::MAX),
            },
            "Float" => match rng.below(3) {
                0 => json!(3),
                1 => json!("1.5"),
                _ => json!(false),
            },
            "String" => match rng.below(3) {
                0 => json!(5),
                1 => json!(["a"]),
                _ => json!(true),
            },
            "Boolean" => match rng.below(3) {
                0 => json!(0),
                1 => json!("true"),
                _ => json!({}),
            },
            "ID" => match rng.below(3) {
                0 => json!(1.5),
                1 => json!({"id": 1}),
                _ => json!(false),
            },
            // enums
            _ => match rng.below(3) {
                0 => json!(1),
                1 => json!(["RED"]),
                _ => json!("red"),
            },
        }
    }

    fn some_object(&self, schema: &Schema, rng: &mut Rng) -> String {
        let objs: Vec<String> = schema
            .types
            .iter()
            .filter(|(n, t)| t.is_object() && !n.starts_with("__"))
            .map(|(n, _)| n.to_string())
            .collect();
        rng.pick(&objs).clone()
    }

    fn foreign_object(&self, schema: &Schema, expected: &str, rng: &mut Rng) -> String {
        let possible = possible_types(schema, expected);
        let objs: Vec<String> = schema
            .types
            .iter()
            .filter(|(n, t)| t.is_object() && !possible.iter().any(|p| p == n.as_str()))
            .map(|(n, _)| n.to_string())
            .collect();
        if objs.is_empty() {
            "Ghost".into()
        } else {
            rng.pick(&objs).clone()
        }
    }
}

/// Object types that may legitimately stand behind `name` (object: itself; interface:
/// implementers; union: members). Computed from the public schema fields.
pub fn possible_types(schema: &Schema, name: &str) -> Vec<String> {
    match schema.types.get(name) {
        Some(ExtendedType::Object(_)) => vec![name.to_string()],
        Some(ExtendedType::Interface(_)) => schema
            .types
            .iter()
            .filter_map(|(n, t)| match t {
                ExtendedType::Object(o) if o.implements_interfaces.contains(name) => {
                    Some(n.to_string())
                }
                _ => None,
            })
            .collect(),
        Some(ExtendedType::Union(u)) => u.members.iter().map(|m| m.name.to_string()).collect(),
        _ => vec![],
    }
}

// ---------- JSON encoding of outcomes for replay files ----------

pub fn outcome_to_json(o: &Outcome) -> J {
    match o {
        Err(m) => json!({"error": m}),
        Ok(v) => val_to_json(v),
    }
}

fn val_to_json(v: &Val) -> J {
    match v {
        Val::Leaf(j) => json!({"leaf": j}),
        Val::Object(t) => json!({"object": t}),
        Val::Skip => json!("skip"),
        Val::List(items, hint) => json!({
            "list": items.iter().map(outcome_to_json).collect::<Vec<_>>(),
            "hint": match hint { Hint::Exact => "exact", Hint::Zero => "zero", Hint::Low => "low" },
        }),
    }
}

pub fn outcome_from_json(j: &J) -> Result<Outcome, String> {
    if j == "skip" {
        return Ok(Ok(Val::Skip));
    }
    let o = j.as_object().ok_or("outcome must be an object")?;
    if let Some(m) = o.get("error") {
        return Ok(Err(m.as_str().unwrap_or("").to_string()));
    }
    if let Some(l) = o.get("leaf") {
        return Ok(Ok(Val::Leaf(l.clone())));
    }
    if let Some(t) = o.get("object") {
        return Ok(Ok(Val::Object(t.as_str().unwrap_or("").to_string())));
    }
    if let Some(items) = o.get("list") {
        let hint = match o.get("hint").and_then(|h| h.as_str()) {
            Some("zero") => Hint::Zero,
            Some("low") => Hint::Low,
            _ => Hint::Exact,
        };
        let mut out = vec![];
        for it in items.as_array().ok_or("list must be an array")? {
            out.push(outcome_from_json(it)?);
        }
        return Ok(Ok(Val::List(out, hint)));
    }
    Err(format!("unrecognised outcome {j}"))
}

/// Does this outcome contain anything that is not a plain conforming value? Used by the
/// minimiser (a "faulty" override is replaced by a simpler one) and for counting non-trivial runs.
pub fn outcome_is_plain(o: &Outcome) -> bool {
    match o {
        Err(_) => false,
        Ok(Val::Skip) => false,
        Ok(Val::List(items, h)) => *h == Hint::Exact && items.iter().all(outcome_is_plain),
        Ok(_) => true,
    }
}
