//! Simulator-owned environment of the executor under test:
//! sim resolvers (sync and async) over the world, scripted futures and streams,
//! a single-task discrete-event executor with a virtual clock, and the event log.

use super::world::Hint;
use super::world::Outcome;
use super::world::Val;
use super::world::World;
use crate::core::rng::mix;
use crate::core::rng::Digest;
use crate::core::rng::Rng;
use apollo_compiler::resolvers::AsyncObjectValue;
use apollo_compiler::resolvers::AsyncResolvedValue;
use apollo_compiler::resolvers::FieldError;
use apollo_compiler::resolvers::ObjectValue;
use apollo_compiler::resolvers::ResolveInfo;
use apollo_compiler::resolvers::ResolvedValue;
use apollo_compiler::response::JsonMap;
use apollo_compiler::response::JsonValue;
use futures::future::BoxFuture;
use futures::Stream;
use serde_json::Value as J;
use std::collections::BTreeMap;
use std::collections::BTreeSet;
use std::collections::BinaryHeap;
use std::future::Future;
use std::pin::Pin;
use std::sync::atomic::AtomicBool;
use std::sync::atomic::AtomicU64;
use std::sync::atomic::Ordering;
use std::sync::Arc;
use std::sync::Mutex;
use std::task::Context;
use std::task::Poll;
use std::task::Wake;
use std::task::Waker;

pub fn to_bytes_json(j: &J) -> JsonValue {
    match j {
        J::Null => JsonValue::Null,
        J::Bool(b) => JsonValue::Bool(*b),
        J::Number(n) => JsonValue::Number(n.clone()),
        J::String(s) => JsonValue::String(s.as_str().into()),
        J::Array(a) => JsonValue::Array(a.iter().map(to_bytes_json).collect()),
        J::Object(o) => {
            let mut m = JsonMap::new();
            for (k, v) in o {
                m.insert(k.as_str(), to_bytes_json(v));
            }
            JsonValue::Object(m)
        }
    }
}

pub fn from_bytes_json(j: &JsonValue) -> J {
    match j {
        JsonValue::Null => J::Null,
        JsonValue::Bool(b) => J::Bool(*b),
        JsonValue::Number(n) => J::Number(n.clone()),
        JsonValue::String(s) => J::String(s.as_str().to_string()),
        JsonValue::Array(a) => J::Array(a.iter().map(from_bytes_json).collect()),
        JsonValue::Object(o) => {
            let mut m = serde_json::Map::new();
            for (k, v) in o.iter() {
                m.insert(k.as_str().to_string(), from_bytes_json(v));
            }
            J::Object(m)
        }
    }
}

#[derive(Clone, Debug, PartialEq, Eq)]
pub enum Mode {
    /// wake the task before returning `Pending`
    Immediate,
    /// register a timer that wakes the task after this many virtual nanoseconds
    Delayed(u64),
    /// wake now, and again later from a timer (a late, spurious wake-up)
    Double(u64),
}

impl Mode {
    pub fn to_json(&self) -> J {
        match self {
            Mode::Immediate => J::String("immediate".into()),
            Mode::Delayed(ns) => J::String(format!("delayed:{ns}")),
            Mode::Double(ns) => J::String(format!("double:{ns}")),
        }
    }
    pub fn from_json(j: &J) -> Option<Mode> {
        let s = j.as_str()?;
        if s == "immediate" {
            Some(Mode::Immediate)
        } else if let Some(ns) = s.strip_prefix("delayed:") {
            Some(Mode::Delayed(ns.parse().ok()?))
        } else if let Some(ns) = s.strip_prefix("double:") {
            Some(Mode::Double(ns.parse().ok()?))
        } else {
            None
        }
    }
}

pub type Script = Vec<Mode>;

/// Where scripts come from: generated from a seed, or given explicitly (replay, exhaustive tier,
/// minimiser). Every script actually used is recorded in `used_*` so that the replay file can
/// carry the explicit schedule.
#[derive(Clone, Debug, Default)]
pub struct Schedule {
    pub seed: u64,
    /// 0 ⇒ every future and stream item is immediately ready
    pub max_pending: u32,
    /// probability in 1/1000 that a future / stream item has a non-empty script
    pub pending_permille: u32,
    /// executor-side spurious polls: probability in 1/1000 per loop iteration
    pub spurious_permille: u32,
    /// the executor hands out a new waker at every poll and ignores wake-ups through older ones
    /// (legal: a future must wake the waker of its most recent poll)
    pub strict_wakers: bool,
    pub explicit: bool,
    pub futures: BTreeMap<u32, Script>,
    pub streams: BTreeMap<(u32, u32), Script>,
    pub spurious: BTreeSet<u32>,
}

impl Schedule {
    pub fn ready() -> Self {
        Schedule::default()
    }

    fn gen_script(&self, kind: u64, a: u32, b: u32) -> Script {
        if self.max_pending == 0 {
            return vec![];
        }
        let mut rng = Rng::new(mix(&[self.seed, kind, a as u64, b as u64]));
        if rng.below(1000) >= self.pending_permille as u64 {
            return vec![];
        }
        let n = match rng.below(2) {
            0 => 1,
            _ => rng.range(1, self.max_pending as u64),
        };
        (0..n)
            .map(|_| match rng.below(10) {
                0..=3 => Mode::Immediate,
                4..=7 => Mode::Delayed(Self::delay(&mut rng)),
                _ => Mode::Double(Self::delay(&mut rng)),
            })
            .collect()
    }

    fn delay(rng: &mut Rng) -> u64 {
        // 1 µs … 10 s, log-uniform-ish
        let exp = rng.range(3, 10);
        let base = 10u64.pow(exp as u32);
        base + rng.below(base)
    }

    fn future_script(&mut self, id: u32) -> Script {
        if let Some(s) = self.futures.get(&id) {
            return s.clone();
        }
        let s = if self.explicit {
            vec![]
        } else {
            self.gen_script(1, id, 0)
        };
        self.futures.insert(id, s.clone());
        s
    }

    fn stream_script(&mut self, id: u32, item: u32) -> Script {
        if let Some(s) = self.streams.get(&(id, item)) {
            return s.clone();
        }
        let s = if self.explicit {
            vec![]
        } else {
            self.gen_script(2, id, item)
        };
        self.streams.insert((id, item), s.clone());
        s
    }

    fn spurious_now(&mut self, iteration: u32) -> bool {
        if self.explicit {
            return self.spurious.contains(&iteration);
        }
        if self.spurious_permille == 0 {
            return false;
        }
        let mut rng = Rng::new(mix(&[self.seed, 3, iteration as u64]));
        let yes = rng.below(1000) < self.spurious_permille as u64;
        if yes {
            self.spurious.insert(iteration);
        }
        yes
    }

    pub fn to_json(&self) -> J {
        let futures: Vec<J> = self
            .futures
            .iter()
            .filter(|(_, s)| !s.is_empty())
            .map(|(id, s)| {
                serde_json::json!({"call": id, "pending": s.iter().map(Mode::to_json).collect::<Vec<_>>()})
            })
            .collect();
        let streams: Vec<J> = self
            .streams
            .iter()
            .filter(|(_, s)| !s.is_empty())
            .map(|((id, item), s)| {
                serde_json::json!({"stream": id, "item": item, "pending": s.iter().map(Mode::to_json).collect::<Vec<_>>()})
            })
            .collect();
        serde_json::json!({
            "futures": futures,
            "streams": streams,
            "spurious_polls": self.spurious.iter().collect::<Vec<_>>(),
            "strict_wakers": self.strict_wakers,
        })
    }

    pub fn from_json(j: &J) -> Result<Schedule, String> {
        let mut s = Schedule {
            explicit: true,
            strict_wakers: j.get("strict_wakers").and_then(|v| v.as_bool()).unwrap_or(false),
            ..Default::default()
        };
        let script = |e: &J| -> Result<Script, String> {
            e.get("pending")
                .and_then(|p| p.as_array())
                .ok_or("missing pending")?
                .iter()
                .map(|m| Mode::from_json(m).ok_or_else(|| format!("bad mode {m}")))
                .collect()
        };
        for e in j.get("futures").and_then(|f| f.as_array()).into_iter().flatten() {
            let id = e.get("call").and_then(|c| c.as_u64()).ok_or("missing call")? as u32;
            s.futures.insert(id, script(e)?);
        }
        for e in j.get("streams").and_then(|f| f.as_array()).into_iter().flatten() {
            let id = e.get("stream").and_then(|c| c.as_u64()).ok_or("missing stream")? as u32;
            let item = e.get("item").and_then(|c| c.as_u64()).ok_or("missing item")? as u32;
            s.streams.insert((id, item), script(e)?);
        }
        for e in j
            .get("spurious_polls")
            .and_then(|f| f.as_array())
            .into_iter()
            .flatten()
        {
            s.spurious.insert(e.as_u64().ok_or("bad spurious")? as u32);
        }
        Ok(s)
    }

    pub fn total_pending(&self) -> usize {
        self.futures.values().map(|s| s.len()).sum::<usize>()
            + self.streams.values().map(|s| s.len()).sum::<usize>()
    }

    pub fn digest(&self) -> u64 {
        let mut d = Digest::new();
        d.update_str(&self.to_json().to_string());
        d.u64()
    }
}

#[derive(Clone, Debug, PartialEq)]
pub struct CallRec {
    pub path: String,
    pub parent_type: String,
    pub field: String,
    pub args: J,
    /// `ResolveInfo::field_selections()`: start offset of each merged field's name, in order
    /// (empty for list-item events)
    pub sels: Vec<usize>,
}

/// start offsets of the names of a group of merged fields: identifies the field nodes
pub fn selection_ids(fields: &[&apollo_compiler::executable::Field]) -> Vec<usize> {
    fields
        .iter()
        .map(|f| f.name.location().map(|l| l.offset()).unwrap_or(usize::MAX))
        .collect()
}

struct Timer {
    fired: bool,
    waker: Option<Waker>,
}

#[derive(Default)]
pub struct Stats {
    pub polls_root: u64,
    pub pending_returns: u64,
    pub timer_fires: u64,
    pub spurious_polls: u64,
    pub late_wakes: u64,
    /// strict-waker mode: wake-ups through a waker older than the most recent poll's (ignored)
    pub stale_wakes: u64,
    pub futures_created: u64,
    pub streams_created: u64,
    pub futures_dropped_incomplete: u64,
    pub streams_dropped_incomplete: u64,
    pub stream_pending_between_items: u64,
    pub virtual_ns: u64,
}

pub struct Inner {
    pub world: World,
    pub schedule: Schedule,
    pub calls: Vec<CallRec>,
    pub log: Digest,
    pub trace: Option<Vec<String>>,
    pub is_mutation: bool,
    pub now: u64,
    seq: u64,
    queue: BinaryHeap<std::cmp::Reverse<(u64, u64, usize)>>,
    timers: Vec<Timer>,
    next_future: u32,
    next_stream: u32,
    /// live sim futures / streams: id → (is_stream, root response key)
    live: BTreeMap<(bool, u32), String>,
    pub discipline: Vec<String>,
    pub stats: Stats,
}

pub type Shared = Arc<Mutex<Inner>>;

impl Inner {
    pub fn new(world: World, schedule: Schedule, is_mutation: bool, trace: bool) -> Shared {
        Arc::new(Mutex::new(Inner {
            world,
            schedule,
            calls: vec![],
            log: Digest::new(),
            trace: if trace { Some(vec![]) } else { None },
            is_mutation,
            now: 0,
            seq: 0,
            queue: BinaryHeap::new(),
            timers: vec![],
            next_future: 0,
            next_stream: 0,
            live: BTreeMap::new(),
            discipline: vec![],
            stats: Stats::default(),
        }))
    }

    pub fn event(&mut self, f: impl FnOnce() -> String) {
        let s = f();
        self.log.update_str(&s);
        if let Some(t) = &mut self.trace {
            t.push(s);
        }
    }

    fn add_timer(&mut self, delay: u64, waker: Waker) -> usize {
        let id = self.timers.len();
        self.timers.push(Timer {
            fired: false,
            waker: Some(waker),
        });
        self.seq += 1;
        self.queue
            .push(std::cmp::Reverse((self.now + delay, self.seq, id)));
        id
    }

    pub fn live_count(&self) -> usize {
        self.live.len()
    }
}

fn child_path(parent: &str, key: &str) -> String {
    if parent.is_empty() {
        key.to_string()
    } else {
        format!("{parent}/{key}")
    }
}

fn root_key(path: &str) -> &str {
    path.split('/').next().unwrap_or("")
}

/// Shared by the sync and async resolvers: log the call, check seriality, consult the world.
fn on_resolve_field(shared: &Shared, obj_path: &str, type_name: &str, info: &ResolveInfo<'_>) -> (String, Outcome) {
    let mut g = shared.lock().unwrap();
    let key = info.field_selections()[0].response_key().as_str();
    let path = child_path(obj_path, key);
    let args = from_bytes_json(&JsonValue::Object(info.arguments().clone()));
    if g.is_mutation && obj_path.is_empty() && !g.live.is_empty() {
        let live: Vec<String> = g
            .live
            .iter()
            .map(|((s, id), root)| format!("{}#{id}@{root}", if *s { "stream" } else { "future" }))
            .collect();
        g.discipline.push(format!(
            "mutation_not_serial: root field `{key}` resolved while {} still in flight",
            live.join(",")
        ));
    }
    let rec = CallRec {
        path: path.clone(),
        parent_type: type_name.to_string(),
        field: info.field_name().to_string(),
        args,
        sels: selection_ids(info.field_selections()),
    };
    if info.field_definition().name.as_str() != info.field_name() {
        g.discipline.push(format!(
            "resolve_info_inconsistent: field_definition() is `{}` for field `{}`",
            info.field_definition().name,
            info.field_name()
        ));
    }
    g.event(|| format!("call {} {}.{} {}", rec.path, rec.parent_type, rec.field, rec.args));
    g.calls.push(rec);
    // The world generates values for the field as defined on the *concrete* object type (what a
    // resolver author sees), not for the possibly less specific interface field the selection
    // was typed against.
    let ty = match info.schema().type_field(type_name, info.field_name()) {
        Ok(def) => def.ty.clone(),
        Err(_) => info.field_definition().ty.clone(),
    };
    let outcome = g
        .world
        .resolve(info.schema(), &path, type_name, info.field_name(), &ty);
    (path, outcome)
}

// ------------------------------------------------------------------ sync resolvers

pub struct SyncObj {
    pub shared: Shared,
    pub path: String,
    pub type_name: String,
}

fn sync_value<'a>(shared: &Shared, path: String, v: Val) -> ResolvedValue<'a> {
    match v {
        Val::Leaf(j) => ResolvedValue::Leaf(to_bytes_json(&j)),
        Val::Skip => ResolvedValue::SkipForPartialExecution,
        Val::Object(t) => ResolvedValue::Object(Box::new(SyncObj {
            shared: shared.clone(),
            path,
            type_name: t,
        })),
        Val::List(items, hint) => ResolvedValue::List(Box::new(SyncIter {
            shared: shared.clone(),
            path,
            items: items.into_iter().map(Some).collect(),
            idx: 0,
            hint,
            ended: false,
            _marker: std::marker::PhantomData,
        })),
    }
}

struct SyncIter<'a> {
    shared: Shared,
    path: String,
    items: Vec<Option<Outcome>>,
    idx: usize,
    hint: Hint,
    ended: bool,
    _marker: std::marker::PhantomData<&'a ()>,
}

/// The production of a list item (and the end of a list) is resolver-side code being called:
/// it is part of the call log that sync and async execution must agree on.
fn log_item(shared: &Shared, path: &str) {
    let mut g = shared.lock().unwrap();
    g.event(|| format!("item {path}"));
    g.calls.push(CallRec {
        path: path.to_string(),
        parent_type: String::new(),
        field: "<list item>".into(),
        args: J::Null,
        sels: vec![],
    });
}

impl<'a> Iterator for SyncIter<'a> {
    type Item = Result<ResolvedValue<'a>, FieldError>;

    fn next(&mut self) -> Option<Self::Item> {
        if self.idx >= self.items.len() {
            if !self.ended {
                self.ended = true;
                log_item(&self.shared, &child_path(&self.path, "<end>"));
            }
            return None;
        }
        let i = self.idx;
        self.idx += 1;
        let item = self.items[i].take().unwrap();
        let path = child_path(&self.path, &i.to_string());
        log_item(&self.shared, &path);
        Some(match item {
            Ok(v) => Ok(sync_value(&self.shared, path, v)),
            Err(message) => Err(FieldError { message }),
        })
    }

    fn size_hint(&self) -> (usize, Option<usize>) {
        let rest = self.items.len() - self.idx;
        match self.hint {
            Hint::Exact => (rest, Some(rest)),
            Hint::Zero => (0, None),
            Hint::Low => (rest / 2, None),
        }
    }
}

impl ObjectValue for SyncObj {
    fn type_name(&self) -> &str {
        &self.type_name
    }

    fn resolve_field<'a>(
        &'a self,
        info: &'a ResolveInfo<'a>,
    ) -> Result<ResolvedValue<'a>, FieldError> {
        let (path, outcome) = on_resolve_field(&self.shared, &self.path, &self.type_name, info);
        match outcome {
            Ok(v) => Ok(sync_value(&self.shared, path, v)),
            Err(message) => Err(FieldError { message }),
        }
    }
}

// ------------------------------------------------------------------ async resolvers

pub struct AsyncObj {
    pub shared: Shared,
    pub path: String,
    pub type_name: String,
}

fn async_value<'a>(shared: &Shared, path: String, v: Val) -> AsyncResolvedValue<'a> {
    match v {
        Val::Leaf(j) => AsyncResolvedValue::Leaf(to_bytes_json(&j)),
        Val::Skip => AsyncResolvedValue::SkipForPartialExecution,
        Val::Object(t) => AsyncResolvedValue::Object(Box::new(AsyncObj {
            shared: shared.clone(),
            path,
            type_name: t,
        })),
        Val::List(items, hint) => {
            let id = {
                let mut g = shared.lock().unwrap();
                let id = g.next_stream;
                g.next_stream += 1;
                g.stats.streams_created += 1;
                let root = root_key(&path).to_string();
                g.live.insert((true, id), root);
                g.event(|| format!("stream#{id} created at {path} len={}", items.len()));
                id
            };
            AsyncResolvedValue::List(Box::pin(SimStream {
                shared: shared.clone(),
                id,
                path,
                items: items.into_iter().map(Some).collect(),
                idx: 0,
                hint,
                wait: Wait::new(),
                finished: false,
                _marker: std::marker::PhantomData,
            }))
        }
    }
}

/// Progress through a script: shared between futures and stream items
struct Wait {
    script: Option<Script>,
    step: usize,
    waiting_timer: Option<usize>,
    /// an Immediate/Double step has returned Pending and the next poll moves on
    armed: bool,
}

impl Wait {
    fn new() -> Self {
        Wait {
            script: None,
            step: 0,
            waiting_timer: None,
            armed: false,
        }
    }

    /// Returns true when the script is exhausted and the value may be produced.
    fn poll(&mut self, g: &mut Inner, cx: &mut Context<'_>, who: &str) -> bool {
        let script = self.script.as_ref().unwrap();
        if let Some(t) = self.waiting_timer {
            if g.timers[t].fired {
                self.waiting_timer = None;
                self.step += 1;
            } else {
                // spurious poll (or a poll caused by someone else's wake): refresh the waker
                g.timers[t].waker = Some(cx.waker().clone());
                g.stats.pending_returns += 1;
                g.event(|| format!("{who} still waiting for timer#{t}"));
                return false;
            }
        } else if self.armed {
            self.armed = false;
            self.step += 1;
        }
        if self.step >= script.len() {
            return true;
        }
        let mode = script[self.step].clone();
        g.stats.pending_returns += 1;
        match mode {
            Mode::Immediate => {
                self.armed = true;
                g.event(|| format!("{who} pending(immediate)"));
                cx.waker().wake_by_ref();
            }
            Mode::Delayed(ns) => {
                let t = g.add_timer(ns, cx.waker().clone());
                self.waiting_timer = Some(t);
                g.event(|| format!("{who} pending(delayed {ns}ns timer#{t})"));
            }
            Mode::Double(ns) => {
                self.armed = true;
                let t = g.add_timer(ns, cx.waker().clone());
                g.event(|| format!("{who} pending(double {ns}ns timer#{t})"));
                cx.waker().wake_by_ref();
            }
        }
        false
    }
}

struct SimFuture<'a> {
    shared: Shared,
    id: u32,
    path: String,
    outcome: Option<Outcome>,
    wait: Wait,
    done: bool,
    _marker: std::marker::PhantomData<&'a ()>,
}

impl<'a> Future for SimFuture<'a> {
    type Output = Result<AsyncResolvedValue<'a>, FieldError>;

    fn poll(mut self: Pin<&mut Self>, cx: &mut Context<'_>) -> Poll<Self::Output> {
        let this = &mut *self;
        let shared = this.shared.clone();
        let id = this.id;
        let mut g = shared.lock().unwrap();
        if this.done {
            g.discipline
                .push(format!("poll_after_completion: future#{id}"));
            return Poll::Pending;
        }
        if this.wait.script.is_none() {
            this.wait.script = Some(g.schedule.future_script(id));
        }
        if !this.wait.poll(&mut g, cx, &format!("future#{id}")) {
            return Poll::Pending;
        }
        this.done = true;
        g.live.remove(&(false, id));
        g.event(|| format!("future#{id} ready"));
        drop(g);
        let outcome = this.outcome.take().unwrap();
        Poll::Ready(match outcome {
            Ok(v) => Ok(async_value(&shared, this.path.clone(), v)),
            Err(message) => Err(FieldError { message }),
        })
    }
}

impl Drop for SimFuture<'_> {
    fn drop(&mut self) {
        if !self.done {
            if let Ok(mut g) = self.shared.lock() {
                let id = self.id;
                g.live.remove(&(false, id));
                g.stats.futures_dropped_incomplete += 1;
                g.event(|| format!("future#{id} dropped before completion"));
            }
        }
    }
}

struct SimStream<'a> {
    shared: Shared,
    id: u32,
    path: String,
    items: Vec<Option<Outcome>>,
    idx: usize,
    hint: Hint,
    wait: Wait,
    finished: bool,
    _marker: std::marker::PhantomData<&'a ()>,
}

impl<'a> Stream for SimStream<'a> {
    type Item = Result<AsyncResolvedValue<'a>, FieldError>;

    fn poll_next(mut self: Pin<&mut Self>, cx: &mut Context<'_>) -> Poll<Option<Self::Item>> {
        let this = &mut *self;
        let shared = this.shared.clone();
        let id = this.id;
        let mut g = shared.lock().unwrap();
        if this.finished {
            g.discipline
                .push(format!("poll_after_completion: stream#{id}"));
            return Poll::Ready(None);
        }
        let i = this.idx;
        if this.wait.script.is_none() {
            // one script per item, and one for the end-of-stream marker (item == len)
            this.wait = Wait::new();
            this.wait.script = Some(g.schedule.stream_script(id, i as u32));
            if i > 0 && !this.wait.script.as_ref().unwrap().is_empty() {
                g.stats.stream_pending_between_items += 1;
            }
        }
        if !this.wait.poll(&mut g, cx, &format!("stream#{id}[{i}]")) {
            return Poll::Pending;
        }
        this.wait.script = None;
        if i >= this.items.len() {
            this.finished = true;
            g.live.remove(&(true, id));
            g.event(|| format!("stream#{id} end"));
            drop(g);
            log_item(&shared, &child_path(&this.path, "<end>"));
            return Poll::Ready(None);
        }
        this.idx += 1;
        g.event(|| format!("stream#{id}[{i}] ready"));
        drop(g);
        let item = this.items[i].take().unwrap();
        let path = child_path(&this.path, &i.to_string());
        log_item(&shared, &path);
        Poll::Ready(Some(match item {
            Ok(v) => Ok(async_value(&shared, path, v)),
            Err(message) => Err(FieldError { message }),
        }))
    }

    fn size_hint(&self) -> (usize, Option<usize>) {
        let rest = self.items.len() - self.idx;
        match self.hint {
            Hint::Exact => (rest, Some(rest)),
            Hint::Zero => (0, None),
            Hint::Low => (rest / 2, None),
        }
    }
}

impl Drop for SimStream<'_> {
    fn drop(&mut self) {
        if !self.finished {
            if let Ok(mut g) = self.shared.lock() {
                let id = self.id;
                g.live.remove(&(true, id));
                g.stats.streams_dropped_incomplete += 1;
                let at = self.idx;
                g.event(|| format!("stream#{id} dropped at item {at}"));
            }
        }
    }
}

impl AsyncObjectValue for AsyncObj {
    fn type_name(&self) -> &str {
        &self.type_name
    }

    fn resolve_field<'a>(
        &'a self,
        info: &'a ResolveInfo<'a>,
    ) -> BoxFuture<'a, Result<AsyncResolvedValue<'a>, FieldError>> {
        let (path, outcome) = on_resolve_field(&self.shared, &self.path, &self.type_name, info);
        let id = {
            let mut g = self.shared.lock().unwrap();
            let id = g.next_future;
            g.next_future += 1;
            g.stats.futures_created += 1;
            let root = root_key(&path).to_string();
            g.live.insert((false, id), root);
            id
        };
        Box::pin(SimFuture {
            shared: self.shared.clone(),
            id,
            path,
            outcome: Some(outcome),
            wait: Wait::new(),
            done: false,
            _marker: std::marker::PhantomData,
        })
    }
}

// ------------------------------------------------------------------ the executor

struct TaskState {
    woken: AtomicBool,
    wakes: AtomicU64,
    /// generation of the waker handed out at the most recent poll
    current: AtomicU64,
    strict: bool,
    stale_wakes: AtomicU64,
}

/// One waker per poll in strict mode: a wake-up through an older generation is counted and ignored
struct TaskWaker {
    state: Arc<TaskState>,
    generation: u64,
}

impl Wake for TaskWaker {
    fn wake(self: Arc<Self>) {
        self.wake_by_ref()
    }
    fn wake_by_ref(self: &Arc<Self>) {
        let st = &self.state;
        if st.strict && self.generation != st.current.load(Ordering::SeqCst) {
            st.stale_wakes.fetch_add(1, Ordering::SeqCst);
            return;
        }
        st.woken.store(true, Ordering::SeqCst);
        st.wakes.fetch_add(1, Ordering::SeqCst);
    }
}

#[derive(Debug)]
pub enum RunEnd<T> {
    Done(T),
    /// pending, not woken, no timer left: nobody will ever poll this task again
    LostWakeup,
    /// poll budget exhausted
    PollCap,
}

/// Drive `fut` to completion as the only task of a discrete-event simulation.
pub fn run_to_completion<T>(
    shared: &Shared,
    fut: Pin<&mut dyn Future<Output = T>>,
    poll_cap: u64,
) -> RunEnd<T> {
    let mut fut = fut;
    let strict = shared.lock().unwrap().schedule.strict_wakers;
    let task = Arc::new(TaskState {
        woken: AtomicBool::new(true), // the first poll
        wakes: AtomicU64::new(0),
        current: AtomicU64::new(0),
        strict,
        stale_wakes: AtomicU64::new(0),
    });
    let mut waker = Waker::from(Arc::new(TaskWaker {
        state: task.clone(),
        generation: 0,
    }));
    let mut iteration: u32 = 0;
    let mut polls: u64 = 0;
    loop {
        iteration += 1;
        let woken = task.woken.swap(false, Ordering::SeqCst);
        let spurious = !woken && {
            let mut g = shared.lock().unwrap();
            let s = g.schedule.spurious_now(iteration);
            if s {
                g.stats.spurious_polls += 1;
            }
            s
        };
        if woken || spurious {
            polls += 1;
            if polls > poll_cap {
                return RunEnd::PollCap;
            }
            {
                let mut g = shared.lock().unwrap();
                g.stats.polls_root += 1;
                g.event(|| format!("poll root ({})", if woken { "woken" } else { "spurious" }));
            }
            if strict {
                let generation = task.current.fetch_add(1, Ordering::SeqCst) + 1;
                waker = Waker::from(Arc::new(TaskWaker {
                    state: task.clone(),
                    generation,
                }));
            }
            let mut cx = Context::from_waker(&waker);
            match fut.as_mut().poll(&mut cx) {
                Poll::Ready(v) => {
                    let mut g = shared.lock().unwrap();
                    g.stats.virtual_ns = g.now;
                    g.stats.stale_wakes += task.stale_wakes.load(Ordering::SeqCst);
                    // wake-ups delivered after completion are legal; count them
                    while let Some(std::cmp::Reverse((_, _, t))) = g.queue.pop() {
                        g.timers[t].fired = true;
                        g.timers[t].waker = None;
                        g.stats.late_wakes += 1;
                    }
                    g.event(|| "root ready".to_string());
                    return RunEnd::Done(v);
                }
                Poll::Pending => continue,
            }
        }
        // nothing runnable: jump the clock to the next event
        let next = {
            let mut g = shared.lock().unwrap();
            match g.queue.pop() {
                Some(std::cmp::Reverse((at, _, t))) => {
                    g.now = at;
                    g.timers[t].fired = true;
                    g.stats.timer_fires += 1;
                    g.event(|| format!("t={at} timer#{t} fires"));
                    g.timers[t].waker.take()
                }
                None => return RunEnd::LostWakeup,
            }
        };
        if let Some(w) = next {
            w.wake();
        }
    }
}
