#!/usr/bin/env bash
# Run a check against a seeded change WITHOUT touching /repo: a scratch worktree of /repo's HEAD gets the
# patch, a scratch copy of /verif (harness sources, known findings) is pointed at that worktree, built and
# run. Several slots can run side by side (and next to a registered check running against /repo).
# Development aid only; `./check selftest sensitivity` and the brief's procedure apply patches to /repo.
# usage: run_against_wt.sh <patch.diff> <Cxx> [quick|thorough] [slot]      (VERIF_UNITS etc. are honoured)
#        run_against_wt.sh --clean [slot]
set -u
if [ "${1:-}" = "--clean" ]; then
  s="${2:-0}"
  git -C /repo worktree remove --force "/tmp/wt/s$s" 2>/dev/null
  rm -rf "/tmp/wt/s$s" "/tmp/vh/s$s"
  git -C /repo worktree prune
  exit 0
fi
PATCH="$(readlink -f "$1")"; PROP="$2"; TIER="${3:-quick}"; SLOT="${4:-0}"
WT="/tmp/wt/s$SLOT"; VH="/tmp/vh/s$SLOT"
export CARGO_NET_OFFLINE=true
export RUSTFLAGS="--cfg apollo_rs_verif"
unset CARGO_ENCODED_RUSTFLAGS CARGO_BUILD_RUSTFLAGS
mkdir -p /tmp/wt /tmp/vh
if [ ! -d "$WT" ]; then git -C /repo worktree add -q --detach "$WT" HEAD || exit 2; fi
git -C "$WT" checkout -q --detach "$(git -C /repo rev-parse HEAD)" 2>/dev/null
git -C "$WT" checkout -q -- . || exit 2
if [ "$PATCH" != "/dev/null" ]; then git -C "$WT" apply "$PATCH" || { echo "patch does not apply" >&2; exit 2; }; fi
mkdir -p "$VH"
rsync -a --delete --exclude target "${VERIF_HARNESS_SRC:-/verif/harness}/" "$VH/harness/"
cp /verif/known_findings.json "$VH/known_findings.json"
# only the dependency edges and the include_str! move; corpus files are still read from /repo (test data)
sed -i "s#/repo/crates#$WT/crates#g" "$VH/harness/Cargo.toml" "$VH/harness/miri/Cargo.toml"
sed -i "s#include_str!(\"/repo/crates#include_str!(\"$WT/crates#" "$VH/harness/src/pipeline.rs"
( cd "$VH/harness" && cargo build --release --offline 2>"$VH/build.log" ) || { echo "harness error: build failed" >&2; tail -n 30 "$VH/build.log" >&2; exit 2; }
export VERIF_ROOT="$VH" VERIF_EVIDENCE_DIR="$VH/evidence" VERIF_REPLAY_DIR="$VH/replays"
mkdir -p "$VH/evidence" "$VH/replays"
"$VH/harness/target/release/verif-sim" run "$PROP" "$TIER"
rc=$?
git -C "$WT" checkout -q -- .
echo "check exit $rc"
exit $rc
