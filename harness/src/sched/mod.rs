//! `sched`: the baton thread scheduler (C30, C31).
//!
//! Simulated threads are real OS threads, but exactly one holds the baton. A thread gives it up
//! only at a *point*: a hook call from /repo (`apollo_compiler::verif::point`, i.e. every access
//! to the file-id counter's atomic and every lazy-static entry) or an explicit point in the
//! workload. At each point the scheduler - a function of the `schedule` sub-stream - picks the
//! next thread among those not blocked. One seed is one exactly repeatable interleaving.

use crate::core::rng::Digest;
use crate::core::rng::Rng;
use std::cell::RefCell;
use std::panic::AssertUnwindSafe;
use std::sync::Arc;
use std::sync::Mutex;

#[derive(Clone, Debug, PartialEq)]
pub enum Strategy {
    /// uniform among runnable threads at every point
    Random,
    /// stay on the current thread unless a coin with probability permille/1000 says switch
    Sticky(u32),
    /// PCT-style: random priorities, `d` priority change points
    Pct(u32),
    /// only the explicit switch list (replay, minimiser)
    Replay,
}

#[derive(Clone, Copy, Debug, PartialEq)]
enum Status {
    Runnable,
    BlockedJoin(usize),
    BlockedInbox,
    BlockedFlag(usize),
    Finished,
}

/// Signals unwinding of a simulated thread because the run was aborted (step cap, deadlock)
struct Abort;

pub struct Config {
    pub strategy: Strategy,
    pub seed: u64,
    /// explicit switches: at global point number `step`, hand the baton to `thread`
    pub switches: Vec<(u64, usize)>,
    pub step_cap: u64,
    /// expected number of points, for placing PCT change points
    pub expected_points: u64,
}

struct State {
    handles: Vec<Option<std::thread::Thread>>,
    main: Option<std::thread::Thread>,
    current: Option<usize>,
    status: Vec<Status>,
    inbox_len: Vec<usize>,
    flags: Vec<bool>,
    steps: u64,
    step_cap: u64,
    abort: bool,
    strategy: Strategy,
    rng: Rng,
    priorities: Vec<u64>,
    change_points: Vec<u64>,
    replay: std::collections::BTreeMap<u64, usize>,
    /// switches actually taken: (step, site, from, to)
    pub taken: Vec<(u64, &'static str, usize, usize)>,
    digest: Digest,
    pub problems: Vec<(String, String)>,
    observer: Option<Box<dyn FnMut(&'static str, usize) -> Option<(String, String)> + Send>>,
    points_by_site: std::collections::BTreeMap<&'static str, u64>,
    /// how many times a thread other than the previous one continued after a hook point of /repo
    pub hook_switches: u64,
}

pub struct Sched {
    m: Mutex<State>,
}

impl State {
    /// wake exactly the thread that now holds the baton (no thundering herd)
    fn wake_current(&self) {
        if let Some(Some(h)) = self.current.map(|t| self.handles[t].as_ref()) {
            h.unpark();
        }
    }
    fn wake_everyone(&self) {
        for h in self.handles.iter().flatten() {
            h.unpark();
        }
        if let Some(m) = &self.main {
            m.unpark();
        }
    }
}

thread_local! {
    static CUR: RefCell<Option<(Arc<Sched>, usize)>> = const { RefCell::new(None) };
}

/// The function installed with `apollo_compiler::verif::set_switch_hook`
pub fn hook(site: &'static str) {
    let cur = CUR.with(|c| c.borrow().clone());
    if let Some((s, tid)) = cur {
        s.point(tid, site, true);
    }
}

/// An explicit scheduling point in the workload
pub fn yield_point(site: &'static str) {
    let cur = CUR.with(|c| c.borrow().clone());
    if let Some((s, tid)) = cur {
        s.point(tid, site, false);
    }
}

pub fn current_thread() -> Option<usize> {
    CUR.with(|c| c.borrow().as_ref().map(|(_, t)| *t))
}

pub struct Outcome {
    pub steps: u64,
    pub switches: Vec<(u64, &'static str, usize, usize)>,
    pub interleaving_digest: u64,
    /// (class, detail)
    pub problems: Vec<(String, String)>,
    pub points_by_site: std::collections::BTreeMap<&'static str, u64>,
    pub hook_switches: u64,
}

impl State {
    fn runnable(&self, t: usize) -> bool {
        match self.status[t] {
            Status::Runnable => true,
            Status::BlockedJoin(o) => self.status[o] == Status::Finished,
            Status::BlockedInbox => self.inbox_len[t] > 0,
            Status::BlockedFlag(f) => self.flags[f],
            Status::Finished => false,
        }
    }

    fn runnable_set(&self) -> Vec<usize> {
        (0..self.status.len()).filter(|t| self.runnable(*t)).collect()
    }

    /// Pick who runs next. `me` is the thread at the point (None at start / after finish).
    fn choose(&mut self, me: Option<usize>, me_runnable: bool) -> Option<usize> {
        let cands = self.runnable_set();
        let cands: Vec<usize> = cands
            .into_iter()
            .filter(|t| Some(*t) != me || me_runnable)
            .collect();
        if cands.is_empty() {
            return None;
        }
        let stay = me.filter(|m| me_runnable && cands.contains(m));
        if let Some(t) = self.replay.get(&self.steps) {
            if cands.contains(t) {
                return Some(*t);
            }
        }
        let pick = match &self.strategy {
            Strategy::Replay => stay.unwrap_or(cands[0]),
            Strategy::Random => cands[self.rng.usize(cands.len())],
            Strategy::Sticky(p) => match stay {
                Some(m) if self.rng.below(1000) >= *p as u64 => m,
                _ => cands[self.rng.usize(cands.len())],
            },
            Strategy::Pct(_) => {
                if let Some(m) = me {
                    if self.change_points.contains(&self.steps) {
                        // lower the running thread below everyone else
                        let min = self.priorities.iter().copied().min().unwrap_or(0);
                        self.priorities[m] = min.saturating_sub(1);
                    }
                }
                *cands
                    .iter()
                    .max_by_key(|t| self.priorities[**t])
                    .unwrap()
            }
        };
        Some(pick)
    }
}

impl Sched {
    fn wait_for_baton<'a>(
        &'a self,
        mut st: std::sync::MutexGuard<'a, State>,
        tid: usize,
    ) -> std::sync::MutexGuard<'a, State> {
        while st.current != Some(tid) && !st.abort {
            drop(st);
            std::thread::park();
            st = self.m.lock().unwrap();
        }
        if st.abort {
            drop(st);
            std::panic::resume_unwind(Box::new(Abort));
        }
        st.status[tid] = Status::Runnable;
        st
    }

    fn point(&self, tid: usize, site: &'static str, from_hook: bool) {
        let mut st = self.m.lock().unwrap();
        if st.abort {
            drop(st);
            std::panic::resume_unwind(Box::new(Abort));
        }
        debug_assert_eq!(st.current, Some(tid), "point from a thread without the baton");
        st.steps += 1;
        *st.points_by_site.entry(site).or_default() += 1;
        if st.steps > st.step_cap {
            st.abort = true;
            let cap = st.step_cap;
            st.problems.push((
                "no_progress".into(),
                format!("step cap {cap} exceeded at site {site}"),
            ));
            st.wake_everyone();
            drop(st);
            std::panic::resume_unwind(Box::new(Abort));
        }
        if let Some(mut obs) = st.observer.take() {
            if let Some(p) = obs(site, tid) {
                st.problems.push(p);
            }
            st.observer = Some(obs);
        }
        let next = st.choose(Some(tid), true).unwrap_or(tid);
        let steps = st.steps;
        st.digest.update_u64(crate::core::rng::hash_str(site) ^ (next as u64) << 56);
        if next != tid {
            st.taken.push((steps, site, tid, next));
            if from_hook {
                st.hook_switches += 1;
            }
            st.current = Some(next);
            st.wake_current();
            let _st = self.wait_for_baton(st, tid);
        }
    }

    fn block(&self, tid: usize, status: Status, site: &'static str) {
        let mut st = self.m.lock().unwrap();
        if st.abort {
            drop(st);
            std::panic::resume_unwind(Box::new(Abort));
        }
        st.status[tid] = status;
        if st.runnable(tid) {
            st.status[tid] = Status::Runnable;
            return;
        }
        st.steps += 1;
        match st.choose(Some(tid), false) {
            Some(next) => {
                let steps = st.steps;
                st.taken.push((steps, site, tid, next));
                st.digest.update_u64(crate::core::rng::hash_str(site) ^ (next as u64) << 56);
                st.current = Some(next);
                st.wake_current();
                let _st = self.wait_for_baton(st, tid);
            }
            None => {
                st.abort = true;
                st.problems.push((
                    "deadlock".into(),
                    format!("thread {tid} blocks at {site} and no thread is runnable"),
                ));
                st.wake_everyone();
                drop(st);
                std::panic::resume_unwind(Box::new(Abort));
            }
        }
    }

    fn finish(&self, tid: usize) {
        let mut st = self.m.lock().unwrap();
        st.status[tid] = Status::Finished;
        if st.abort {
            st.wake_everyone();
            return;
        }
        st.steps += 1;
        match st.choose(None, false) {
            Some(next) => {
                let steps = st.steps;
                st.taken.push((steps, "exit", tid, next));
                st.digest.update_u64(0xE417 ^ (next as u64) << 56);
                st.current = Some(next);
                st.wake_current();
            }
            None => {
                st.current = None;
                if st.status.iter().any(|s| *s != Status::Finished) {
                    st.abort = true;
                    st.problems.push((
                        "deadlock".into(),
                        format!("thread {tid} exits and the remaining threads are all blocked"),
                    ));
                }
                st.wake_everyone();
            }
        }
    }
}

type Job = Box<dyn FnOnce() + Send>;

struct PoolThread {
    tx: std::sync::mpsc::Sender<Job>,
    thread: std::thread::Thread,
}

static POOL: Mutex<Vec<PoolThread>> = Mutex::new(Vec::new());

fn pool_take(n: usize) -> Vec<PoolThread> {
    let mut pool = POOL.lock().unwrap();
    let mut out = vec![];
    while out.len() < n {
        if let Some(t) = pool.pop() {
            out.push(t);
            continue;
        }
        let (tx, rx) = std::sync::mpsc::channel::<Job>();
        let h = std::thread::Builder::new()
            .name("sim".into())
            .stack_size(2 << 20)
            .spawn(move || {
                while let Ok(job) = rx.recv() {
                    job();
                }
            })
            .expect("spawn sim thread");
        out.push(PoolThread {
            tx,
            thread: h.thread().clone(),
        });
    }
    out
}

/// Simulated threads are not reused across cases: thread-local state of the code under test
/// (a memo, a cache) must be exactly what this case's own tasks left there, so that a replay in a
/// fresh process sees the same. (Dropping the sender ends the thread's loop.)
fn pool_give(threads: Vec<PoolThread>) {
    drop(threads);
}

/// Handle given to each simulated thread's body
pub struct Ctx {
    sched: Arc<Sched>,
    pub tid: usize,
}

impl Ctx {
    pub fn point(&self, site: &'static str) {
        self.sched.point(self.tid, site, false)
    }
    pub fn join(&self, other: usize) {
        self.sched.block(self.tid, Status::BlockedJoin(other), "join")
    }
    /// Block until this thread's inbox is non-empty (the inbox itself lives in the workload)
    pub fn wait_inbox(&self) {
        self.sched.block(self.tid, Status::BlockedInbox, "recv")
    }
    pub fn inbox_changed(&self, thread: usize, len: usize) {
        self.sched.m.lock().unwrap().inbox_len[thread] = len;
    }
    pub fn wait_flag(&self, flag: usize) {
        self.sched.block(self.tid, Status::BlockedFlag(flag), "wait_flag")
    }
    pub fn set_flag(&self, flag: usize) {
        self.sched.m.lock().unwrap().flags[flag] = true;
    }
    pub fn report(&self, class: &str, detail: String) {
        self.sched
            .m
            .lock()
            .unwrap()
            .problems
            .push((class.to_string(), detail));
    }
}

pub type Body = Box<dyn FnOnce(&Ctx) + Send>;
pub type Observer = Box<dyn FnMut(&'static str, usize) -> Option<(String, String)> + Send>;

/// Run the simulated threads to completion under the scheduler.
pub fn run(cfg: Config, bodies: Vec<Body>, n_flags: usize, observer: Option<Observer>) -> Outcome {
    let n = bodies.len();
    let mut rng = Rng::new(cfg.seed);
    let priorities: Vec<u64> = (0..n).map(|_| 1000 + rng.below(1_000_000)).collect();
    let change_points: Vec<u64> = match cfg.strategy {
        Strategy::Pct(d) => (0..d)
            .map(|_| 1 + rng.below(cfg.expected_points.max(2)))
            .collect(),
        _ => vec![],
    };
    let sched = Arc::new(Sched {
        m: Mutex::new(State {
            handles: vec![None; n],
            main: Some(std::thread::current()),
            current: None,
            status: vec![Status::Runnable; n],
            inbox_len: vec![0; n],
            flags: vec![false; n_flags],
            steps: 0,
            step_cap: cfg.step_cap,
            abort: false,
            strategy: cfg.strategy.clone(),
            rng,
            priorities,
            change_points,
            replay: cfg.switches.iter().copied().collect(),
            taken: vec![],
            digest: Digest::new(),
            problems: vec![],
            observer,
            points_by_site: Default::default(),
            hook_switches: 0,
        }),
    });
    // persistent OS threads, reused across runs of this process (thread creation dominated the
    // cost of short runs); nothing of a previous run survives in them: CUR is reset per job
    let pool = pool_take(n);
    let remaining = Arc::new(std::sync::atomic::AtomicUsize::new(n));
    for (tid, body) in bodies.into_iter().enumerate() {
        let s = sched.clone();
        let remaining = remaining.clone();
        sched.m.lock().unwrap().handles[tid] = Some(pool[tid].thread.clone());
        let job: Job = Box::new(move || {
            CUR.with(|c| *c.borrow_mut() = Some((s.clone(), tid)));
            let ctx = Ctx {
                sched: s.clone(),
                tid,
            };
            let r = std::panic::catch_unwind(AssertUnwindSafe(|| {
                {
                    let st = s.m.lock().unwrap();
                    let _st = s.wait_for_baton(st, tid);
                }
                body(&ctx);
            }));
            if let Err(payload) = r {
                if payload.downcast_ref::<Abort>().is_none() {
                    let msg = crate::exec::take_last_panic();
                    s.m.lock()
                        .unwrap()
                        .problems
                        .push(("panic".into(), format!("thread {tid}: {msg}")));
                }
            }
            CUR.with(|c| *c.borrow_mut() = None);
            s.finish(tid);
            drop(ctx);
            drop(s);
            remaining.fetch_sub(1, std::sync::atomic::Ordering::SeqCst);
        });
        pool[tid].tx.send(job).expect("pool thread alive");
    }
    {
        let mut st = sched.m.lock().unwrap();
        st.steps += 1;
        let first = st.choose(None, false);
        st.current = first;
        if let Some(f) = first {
            st.digest.update_u64(0x57A7 ^ (f as u64) << 56);
            st.taken.push((1, "start", usize::MAX, f));
        }
        st.wake_current();
        while !st.abort && st.status.iter().any(|s| *s != Status::Finished) {
            drop(st);
            std::thread::park();
            st = sched.m.lock().unwrap();
        }
    }
    // every job has returned to its pool loop before the outcome is read
    while remaining.load(std::sync::atomic::Ordering::SeqCst) != 0 {
        std::thread::yield_now();
    }
    pool_give(pool);
    let mut st = sched.m.lock().unwrap();
    Outcome {
        steps: st.steps,
        switches: std::mem::take(&mut st.taken),
        interleaving_digest: st.digest.u64(),
        problems: std::mem::take(&mut st.problems),
        points_by_site: std::mem::take(&mut st.points_by_site),
        hook_switches: st.hook_switches,
    }
}
