pub mod c22;
pub mod c26;
pub mod c27;
pub mod c30;
pub mod c31;
pub mod execmin;

use crate::core::batch::Property;

pub fn lookup(id: &str) -> Option<Box<dyn Property>> {
    match id {
        "C22" => Some(Box::new(c22::C22)),
        "C26" => Some(Box::new(c26::C26)),
        "C27" => Some(Box::new(c27::C27)),
        "C30" => Some(Box::new(c30::C30)),
        "C31" => Some(Box::new(c31::C31)),
        _ => None,
    }
}

pub fn selftest(_args: &[String]) -> i32 {
    eprintln!("selftest: not built yet");
    2
}
