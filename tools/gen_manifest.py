#!/usr/bin/env python3
"""Regenerates /verif/MANIFEST.json (kept valid at all times). Not-applicable reasons come from DESIGN.md section 4."""
import json, re, subprocess
root = '/verif'
design = open(f'{root}/DESIGN.md').read()
na_reasons = {}
sec4 = design[design.index('## 4. Not applicable'):]
for m in re.finditer(r'^\| (C\d\d) \| (.+?) \|$', sec4, re.M):
    na_reasons[m.group(1)] = m.group(2)
props = [json.loads(l)['id'] for l in open(f'{root}/properties.jsonl')]
hooks = subprocess.run(['git', '-C', '/repo', 'log', '--format=%h %s'], capture_output=True, text=True).stdout.splitlines()
hook_commits = [l.split()[0] for l in hooks if l.split(' ', 1)[1].startswith('verif hook')]
hook_commits.reverse()

def check(pid, engine, category, text, note, technique, ref):
    return {
        "property_id": pid,
        "quick_cmd": f"./check {pid} quick",
        "thorough_cmd": f"./check {pid} thorough",
        "evidence_file": f"evidence/{pid}.json",
        "replay_cmd_template": "./check --replay {path}",
        "engine": engine,
        "level_claimed": {"category": category, "text": text, "design_ref": ref},
        "level_note": note,
        "technique": technique,
    }

checks = [
 check("C22", "ambient", "exploration",
  "Each input (corpus files, seeded amplified documents that fill the iterated hash containers, apollo-smith byte strings) is driven through the real pipeline under a baseline and 6/24 perturbed trials - re-keyed hash maps via a simulator-owned ahash key source, id-counter skew, heap-layout skew, fresh thread, earlier unrelated work on the same thread (history) - and in 4/16 real processes with genuine OS keys; all observable outputs (serialisations in several settings, diagnostics text and JSON in order, introspection JSON, apollo-smith documents, operations and responses) must be byte-identical. Differential check of the code against itself, so no model can be wrong; sampling, not proof.",
  "trusts nothing but byte comparison of Display/JSON outputs; Debug output and iteration order of unordered-map-typed values are excluded; std RandomState and once-per-process statics are covered by thread/process re-sampling (replay input-exact, key-probabilistic)",
  "deterministic simulation of ambient state: seeded re-keying of hash maps, counter/heap/thread perturbation, cross-process digest comparison",
  "DESIGN.md 3.1"),
 check("C26", "asyncsim", "fault_enumeration",
  "Seeded fault injection at the resolver seam (errors, nulls, wrong kinds/types, failing list iterators, unknown/foreign object types, partial-execution skips) over generated valid requests, each run refined against a small reference executor written from the spec; data compared exactly, errors as path multisets against the reference with and without cancellation, error locations, ResolveInfo contents (coerced arguments, merged field selections), response format, plus a second execution under other hash keys for responses with errors. Sampling, not proof.",
  "trusts parser/validator/typing (C05,C17,C18) and coerce_variable_values (C28); reference executor hand-written from spec section 6 + rustdoc (DESIGN appendix A); error messages and the order of errors are not compared with the reference (only required to be independent of hash keys)",
  "deterministic simulation: seeded fault injection at the ObjectValue seam, refinement against a reference executor",
  "DESIGN.md 3.2, appendix A"),
 check("C27", "asyncsim", "exploration",
  "execute_async runs under a simulator-owned single-task discrete-event executor: seeded readiness/wake-up schedules (pending counts, immediate/timer/double wakes, spurious polls, all-ready to dense) per resolver future and stream item, long lists to cross batching thresholds, plus exhaustive enumeration of 7 scripts per scripted point for small requests; oracle is execute_sync on the same world (response and resolver/iterator call log), plus mutation seriality, lost-wake-up, poll-after-completion and leak invariants; in a third of the runs the executor hands out a new waker per poll and ignores stale ones.",
  "oracle is the code's own sync path (a defect identical in both paths is C26's); sim futures obey the Future contract; one task",
  "deterministic simulation: discrete-event executor with seeded and bounded-exhaustive readiness schedules, sync run as oracle",
  "DESIGN.md 3.3"),
 check("C30", "sched+simalloc", "exploration",
  "Seeded operation histories on names and nodes (all constructors, clone/drop, bulk clones up to 70 000 live handles, locations incl. ids next to the tag bit, conversions to Arc<str>, copy-on-write with injected Clone panics, eq/ord/hash, Node<str> incl. the empty string) spread over 1-4 simulated threads under the baton scheduler, a reference model checked after every step (text, location, static/heap, strong count of every backing string, alias groups), an instrumented allocator (leaks, double frees, 0xDD-poisoned quarantine); Miri tiers (a slice in quick, full in thorough: model histories under Miri's checks; free-running threads under Miri's seeded scheduler with race detection).",
  "native tier: operations atomic w.r.t. the scheduler (interleavings inside Arc's atomics only in the Miri tier); use-after-free seen through poison+model, not traps; with_location precondition respected",
  "deterministic simulation: seeded histories x thread schedules with reference model, instrumented allocator, Miri seeded scheduler",
  "DESIGN.md 3.4"),
 check("C31", "sched", "exploration",
  "Seeded interleavings of 2-4 simulated threads doing id allocation, parsing (also under unusual source paths), validation against one shared Valid<Schema> and against schemas derived from it, execution, diagnostics rendering, serialisation and introspection, with scheduling points inside every access of the id counter's atomic and at every lazy static; start values incl. the 63-bit wrap window, warm and cold (fresh process) statics; invariants: ids distinct until a wrap, never reserved, pack/unpack round trip, progress, every task's output equals its sequential execution. A Miri tier (two jobs in quick, six in thorough: free-running cold threads, shared-schema and cold-schema modes, race/UAF detection, sequential equivalence).",
  "baton scheduler is sequentially consistent and does not interleave inside a lazy static's initialiser (no-yield region); that window is the Miri tier's; duplicates after an observed wrap are permitted, and outputs that involve the shared schema are then not compared",
  "deterministic simulation: baton thread scheduler (random/sticky/PCT) at hooked atomics and lazy statics, sequential-equivalence oracle, Miri seeded scheduler",
  "DESIGN.md 3.5"),
]
claimed = {c['property_id'] for c in checks}
manifest = {
 "version": 1,
 "setup_cmd": "./check setup",
 "hooks": {
   "guard": "--cfg apollo_rs_verif",
   "enable": "RUSTFLAGS='--cfg apollo_rs_verif' (exported by ./check; /verif/harness depends on /repo/crates/* by path and is rebuilt by every check)",
   "baseline_off_cmd": "cd /repo && (cargo nextest run --workspace --no-fail-fast --test-threads 8 --offline || cargo test --workspace --no-fail-fast --offline)",
   "source_commits": hook_commits,
   "add_only": True,
 },
 "engines": [
   {"name": "asyncsim", "path": "harness/src/exec", "serves_properties": ["C26", "C27"], "kind_free_text": "single-task discrete-event executor with virtual clock; scripted resolver futures/streams; seeded resolver world with fault injection; reference executor"},
   {"name": "sched", "path": "harness/src/sched", "serves_properties": ["C30", "C31"], "kind_free_text": "baton thread scheduler: real threads, one runs at a time, seeded random/sticky/PCT/replay strategies at hook points; minimisable explicit schedules"},
   {"name": "simalloc", "path": "harness/src/simalloc.rs", "serves_properties": ["C30"], "kind_free_text": "instrumented global allocator: tracked window, double-free detection, poisoned quarantine, leak report"},
   {"name": "ambient", "path": "harness/src/props/c22.rs", "serves_properties": ["C22"], "kind_free_text": "ambient-state perturbation: vendored ahash with simulator-owned key source, id-counter/heap/thread/history skew, cross-process layer"},
   {"name": "miri", "path": "harness/miri", "serves_properties": ["C30", "C31"], "kind_free_text": "Miri tiers (a slice in quick, full in thorough): seeded Miri scheduler, UB/race/leak detection; one Miri seed is one replayable execution"},
 ],
 "checks": checks,
 "notes": "Five properties are claimed (C22, C26, C27, C30, C31); the other 28 are pure functions of their input and are listed as not applicable with the reason (DESIGN.md section 4). Exit codes: 0 held, 1 violation (with VIOLATION line), 2 harness/build error. known_findings.json lists two genuine C26 defects, both repaired in /repo with fix: commits.",
 "not_applicable": [{"property_id": p, "reason": na_reasons[p]} for p in props if p not in claimed],
}
json.dump(manifest, open(f'{root}/MANIFEST.json', 'w'), indent=1)
print("claimed", sorted(claimed), "n/a", len(manifest['not_applicable']), "hooks", hook_commits)
