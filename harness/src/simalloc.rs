//! `simalloc`: the harness binary's global allocator. It delegates to `System`, but while
//! *armed* for a run it
//!  * records every block allocated inside a tracked section (`tracked(|| …)`),
//!  * turns a `dealloc` of a block that is in quarantine into a reported double free instead of
//!    passing it on,
//!  * fills freed tracked blocks with 0xDD and keeps them in quarantine (never reused during the
//!    run), so that a read-after-free of a name's bytes deterministically yields poison instead of
//!    depending on allocator reuse,
//!  * reports the blocks still live at the end of the run (leaks).
//! No allocation happens inside the allocator: the table is a fixed static array.

use std::alloc::GlobalAlloc;
use std::alloc::Layout;
use std::alloc::System;
use std::cell::Cell;
use std::sync::atomic::AtomicBool;
use std::sync::atomic::AtomicU64;
use std::sync::atomic::Ordering;

pub struct SimAlloc;

const CAP: usize = 1 << 15;
const EMPTY: u8 = 0;
const LIVE: u8 = 1;
const QUARANTINED: u8 = 2;
const TOMBSTONE: u8 = 3;

#[derive(Clone, Copy)]
struct Entry {
    ptr: usize,
    size: usize,
    align: usize,
    state: u8,
}

struct Table {
    entries: [Entry; CAP],
    live: usize,
    quarantined: usize,
    used: usize,
}

static ARMED: AtomicBool = AtomicBool::new(false);
static LOCK: AtomicBool = AtomicBool::new(false);
static DOUBLE_FREES: AtomicU64 = AtomicU64::new(0);
static TRACKED_ALLOCS: AtomicU64 = AtomicU64::new(0);
static OVERFLOW: AtomicBool = AtomicBool::new(false);
static mut TABLE: Table = Table {
    entries: [Entry {
        ptr: 0,
        size: 0,
        align: 0,
        state: EMPTY,
    }; CAP],
    live: 0,
    quarantined: 0,
    used: 0,
};

thread_local! {
    static DEPTH: Cell<u32> = const { Cell::new(0) };
}

fn lock() {
    while LOCK
        .compare_exchange_weak(false, true, Ordering::Acquire, Ordering::Relaxed)
        .is_err()
    {
        std::hint::spin_loop();
    }
}

fn unlock() {
    LOCK.store(false, Ordering::Release);
}

fn slot_of(ptr: usize) -> usize {
    (ptr >> 4).wrapping_mul(0x9E37_79B9_7F4A_7C15) >> (64 - 15)
}

#[allow(static_mut_refs)]
unsafe fn table() -> &'static mut Table {
    &mut TABLE
}

unsafe fn find(t: &mut Table, ptr: usize) -> Option<usize> {
    let mut i = slot_of(ptr);
    for _ in 0..CAP {
        let e = &t.entries[i];
        if e.state == EMPTY {
            return None;
        }
        if e.state != TOMBSTONE && e.ptr == ptr {
            return Some(i);
        }
        i = (i + 1) & (CAP - 1);
    }
    None
}

unsafe fn insert(t: &mut Table, ptr: usize, size: usize, align: usize) {
    if t.used >= CAP - CAP / 8 {
        OVERFLOW.store(true, Ordering::SeqCst);
        return;
    }
    let mut i = slot_of(ptr);
    loop {
        let e = &mut t.entries[i];
        if e.state == EMPTY || e.state == TOMBSTONE {
            if e.state == EMPTY {
                t.used += 1;
            }
            *e = Entry {
                ptr,
                size,
                align,
                state: LIVE,
            };
            t.live += 1;
            return;
        }
        i = (i + 1) & (CAP - 1);
    }
}

unsafe impl GlobalAlloc for SimAlloc {
    unsafe fn alloc(&self, layout: Layout) -> *mut u8 {
        let p = System.alloc(layout);
        if !p.is_null() && ARMED.load(Ordering::Relaxed) {
            let depth = DEPTH.try_with(|d| d.get()).unwrap_or(0);
            if depth > 0 {
                lock();
                insert(table(), p as usize, layout.size(), layout.align());
                unlock();
                TRACKED_ALLOCS.fetch_add(1, Ordering::Relaxed);
            }
        }
        p
    }

    unsafe fn dealloc(&self, ptr: *mut u8, layout: Layout) {
        if ARMED.load(Ordering::Relaxed) {
            lock();
            let t = table();
            if let Some(i) = find(t, ptr as usize) {
                match t.entries[i].state {
                    LIVE => {
                        t.entries[i].state = QUARANTINED;
                        t.live -= 1;
                        t.quarantined += 1;
                        let size = t.entries[i].size;
                        unlock();
                        std::ptr::write_bytes(ptr, 0xDD, size);
                        return; // kept in quarantine until the run ends
                    }
                    QUARANTINED => {
                        unlock();
                        DOUBLE_FREES.fetch_add(1, Ordering::SeqCst);
                        return; // reported instead of being passed on
                    }
                    _ => {}
                }
            }
            unlock();
        }
        System.dealloc(ptr, layout)
    }

    // `realloc` and `alloc_zeroed` use the default implementations, which go through
    // `alloc` / `dealloc` above.
}

/// Run `f` with allocation tracking on for the current thread
pub fn tracked<R>(f: impl FnOnce() -> R) -> R {
    struct Guard;
    impl Drop for Guard {
        fn drop(&mut self) {
            DEPTH.with(|d| d.set(d.get() - 1));
        }
    }
    DEPTH.with(|d| d.set(d.get() + 1));
    let _g = Guard;
    f()
}

/// Run `f` with allocation tracking off for the current thread (harness bookkeeping that
/// happens to run inside a tracked section, e.g. the panic hook)
pub fn untracked<R>(f: impl FnOnce() -> R) -> R {
    let saved = DEPTH.with(|d| d.replace(0));
    let r = f();
    DEPTH.with(|d| d.set(saved));
    r
}

pub fn arm() {
    DOUBLE_FREES.store(0, Ordering::SeqCst);
    TRACKED_ALLOCS.store(0, Ordering::SeqCst);
    OVERFLOW.store(false, Ordering::SeqCst);
    ARMED.store(true, Ordering::SeqCst);
}

pub struct Report {
    pub double_frees: u64,
    pub tracked_allocs: u64,
    pub quarantined: u64,
    /// (size, first bytes) of blocks still live
    pub leaked: Vec<(usize, Vec<u8>)>,
    pub table_overflow: bool,
}

/// Stop tracking, release the quarantine, and report what is still live.
pub fn disarm() -> Report {
    ARMED.store(false, Ordering::SeqCst);
    let mut leaked_raw: Vec<(usize, usize)> = Vec::new();
    let mut to_free: Vec<(usize, usize, usize)> = Vec::new();
    let quarantined;
    unsafe {
        lock();
        let t = table();
        quarantined = t.quarantined as u64;
        // collect first (Vec growth allocates, but we are disarmed), then clear
        for e in t.entries.iter_mut() {
            match e.state {
                LIVE => leaked_raw.push((e.ptr, e.size)),
                QUARANTINED => to_free.push((e.ptr, e.size, e.align)),
                _ => {}
            }
            e.state = EMPTY;
        }
        t.live = 0;
        t.quarantined = 0;
        t.used = 0;
        unlock();
    }
    let leaked = leaked_raw
        .iter()
        .map(|(p, s)| {
            let n = (*s).min(24);
            let bytes = unsafe { std::slice::from_raw_parts(*p as *const u8, n) }.to_vec();
            (*s, bytes)
        })
        .collect();
    for (p, s, a) in to_free {
        unsafe { System.dealloc(p as *mut u8, Layout::from_size_align_unchecked(s, a)) };
    }
    Report {
        double_frees: DOUBLE_FREES.load(Ordering::SeqCst),
        tracked_allocs: TRACKED_ALLOCS.load(Ordering::SeqCst),
        quarantined,
        leaked,
        table_overflow: OVERFLOW.load(Ordering::SeqCst),
    }
}
