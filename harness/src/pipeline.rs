//! The real public pipeline of apollo-compiler / apollo-smith, reduced to *observable text*:
//! serialisations, diagnostics (`Display` + JSON, in order), introspection JSON, smith documents.
//! Never `Debug` (which legitimately prints raw file ids and may use colours).
//! Used by C31 (sequential equivalence under thread schedules) and C22 (ambient-state perturbation).

use apollo_compiler::ast;
use apollo_compiler::introspection;
use apollo_compiler::parser::Parser;
use apollo_compiler::validation::DiagnosticList;
use apollo_compiler::validation::Valid;
use apollo_compiler::ExecutableDocument;
use apollo_compiler::Schema;
use std::fmt::Write as _;

pub const INTROSPECTION_QUERY: &str =
    include_str!("/repo/crates/apollo-compiler/test_data/introspection/introspect_full_schema.graphql");

pub fn diag_bundle(errors: &DiagnosticList) -> String {
    let mut s = String::new();
    let _ = writeln!(s, "{} diagnostics", errors.len());
    let _ = write!(s, "{errors}");
    for d in errors.iter() {
        let _ = writeln!(s, "{}", serde_json::to_string(&d.to_json()).unwrap_or_default());
    }
    s
}

/// `ast::Document::parse` → `to_string` and `serialize().no_indent()`
pub fn ast_bundle(text: &str, path: &str) -> String {
    let mut s = String::new();
    match ast::Document::parse(text, path) {
        Ok(doc) => {
            let _ = writeln!(s, "AST OK\n{doc}\n--no-indent--\n{}", doc.serialize().no_indent());
            let _ = writeln!(
                s,
                "--tab-indent--\n{}\n--level-2--\n{}",
                doc.serialize().indent_prefix("\t"),
                doc.serialize().indent_prefix("--").initial_indent_level(2)
            );
        }
        Err(e) => {
            let _ = writeln!(
                s,
                "AST ERR\n{}\n--partial--\n{}",
                diag_bundle(&e.errors),
                e.partial
            );
        }
    }
    s
}

/// `Schema::parse_and_validate` → `Display`, or diagnostics
pub fn schema_bundle(text: &str, path: &str) -> (String, Option<Valid<Schema>>) {
    match Schema::parse_and_validate(text, path) {
        Ok(schema) => (format!("SCHEMA OK\n{schema}"), Some(schema)),
        Err(e) => (
            format!("SCHEMA ERR\n{}--partial--\n{}", diag_bundle(&e.errors), e.partial),
            None,
        ),
    }
}

/// Several sources into one `SchemaBuilder`
pub fn multi_source_bundle(parts: &[(&str, &str)]) -> String {
    let mut b = Schema::builder();
    for (text, path) in parts {
        b = b.parse(*text, *path);
    }
    match b.build() {
        Ok(schema) => match schema.validate() {
            Ok(v) => format!("MULTI OK\n{v}"),
            Err(e) => format!(
                "MULTI INVALID\n{}--partial--\n{}",
                diag_bundle(&e.errors),
                e.partial
            ),
        },
        Err(e) => format!(
            "MULTI BUILD ERR\n{}--partial--\n{}",
            diag_bundle(&e.errors),
            e.partial
        ),
    }
}

/// `ExecutableDocument::parse_and_validate` against a schema
pub fn exec_bundle(schema: &Valid<Schema>, text: &str, path: &str) -> String {
    match ExecutableDocument::parse_and_validate(schema, text, path) {
        Ok(doc) => format!("EXEC OK\n{doc}"),
        Err(e) => format!(
            "EXEC ERR\n{}--partial--\n{}",
            diag_bundle(&e.errors),
            e.partial
        ),
    }
}

/// Schema and executable definitions in one text
pub fn mixed_bundle(text: &str, path: &str) -> String {
    match Parser::new().parse_mixed_validate(text, path) {
        Ok((schema, doc)) => format!("MIXED OK\n{schema}\n--doc--\n{doc}"),
        Err(e) => format!("MIXED ERR\n{}", diag_bundle(&e)),
    }
}

/// Validation of an executable document without a schema
pub fn standalone_bundle(text: &str, path: &str) -> String {
    match ast::Document::parse(text, path) {
        Ok(doc) => match doc.validate_standalone_executable() {
            Ok(()) => "STANDALONE OK\n".to_string(),
            Err(e) => format!("STANDALONE ERR\n{}", diag_bundle(&e)),
        },
        Err(e) => match e.partial.validate_standalone_executable() {
            Ok(()) => "STANDALONE(partial) OK\n".to_string(),
            Err(e2) => format!("STANDALONE(partial) ERR\n{}", diag_bundle(&e2)),
        },
    }
}

/// `introspection::partial_execute` with the standard full introspection query
pub fn introspection_bundle(schema: &Valid<Schema>) -> String {
    let doc = match ExecutableDocument::parse_and_validate(schema, INTROSPECTION_QUERY, "introspection.graphql") {
        Ok(d) => d,
        Err(e) => return format!("INTROSPECTION QUERY INVALID\n{}", diag_bundle(&e.errors)),
    };
    let op = match doc.operations.get(None) {
        Ok(op) => op,
        Err(e) => return format!("INTROSPECTION NO OP {}", e.message()),
    };
    let vars = Valid::assume_valid(Default::default());
    match introspection::partial_execute(schema, &schema.implementers_map(), &doc, op, &vars) {
        Ok(resp) => format!(
            "INTROSPECTION\n{}",
            serde_json::to_string(&resp).unwrap_or_default()
        ),
        Err(e) => format!("INTROSPECTION REQUEST ERROR {}", e.message()),
    }
}

/// Multi-source build with a builder option
pub fn multi_source_opt_bundle(parts: &[(String, String)], adopt_orphans: bool, ignore_builtin: bool) -> String {
    let mut b = Schema::builder();
    if adopt_orphans {
        b = b.adopt_orphan_extensions();
    }
    if ignore_builtin {
        b = b.ignore_builtin_redefinitions();
    }
    for (text, path) in parts {
        b = b.parse(text.as_str(), path.as_str());
    }
    let mut s = String::new();
    let orphans: Vec<String> = b.iter_orphan_extension_types().map(|n| n.to_string()).collect();
    let _ = writeln!(s, "orphans {orphans:?}");
    match b.build() {
        Ok(schema) => match schema.validate() {
            Ok(v) => {
                let _ = write!(s, "MULTI OK\n{v}");
            }
            Err(e) => {
                let _ = write!(s, "MULTI INVALID\n{}--partial--\n{}", diag_bundle(&e.errors), e.partial);
            }
        },
        Err(e) => {
            let _ = write!(s, "MULTI BUILD ERR\n{}--partial--\n{}", diag_bundle(&e.errors), e.partial);
        }
    }
    s
}

/// Every observable of the pipeline for one input text, as named stages.
pub fn full_bundle(text: &str) -> Vec<(&'static str, String)> {
    full_bundle_opts(text, true)
}

/// `smith_seed`: also let apollo-smith generate operations against `text` as its seed document.
/// Not done for documents that apollo-smith generated itself: with a self-referential input type in
/// the seed and exhausted entropy its value generation recurses without bound (an observation
/// outside the claimed properties, DESIGN.md section 8), and a stack overflow cannot be contained.
pub fn full_bundle_opts(text: &str, smith_seed: bool) -> Vec<(&'static str, String)> {
    let mut out: Vec<(&'static str, String)> = vec![];
    out.push(("ast", ast_bundle(text, "input.graphql")));
    out.push(("mixed", mixed_bundle(text, "input.graphql")));
    out.push(("standalone", standalone_bundle(text, "input.graphql")));
    let (schema_out, _) = schema_bundle(text, "input.graphql");
    out.push(("schema", schema_out));
    // split into type-system and executable definitions (re-serialised), and into two sources
    let doc = match ast::Document::parse(text, "input.graphql") {
        Ok(d) => d,
        Err(e) => e.partial,
    };
    let mut type_system = String::new();
    let mut executable = String::new();
    let mut halves = [String::new(), String::new()];
    let mut k = 0;
    for def in &doc.definitions {
        let is_exec = matches!(
            def,
            ast::Definition::OperationDefinition(_) | ast::Definition::FragmentDefinition(_)
        );
        let s = def.to_string();
        if is_exec {
            executable.push_str(&s);
            executable.push('\n');
        } else {
            type_system.push_str(&s);
            type_system.push('\n');
            halves[k % 2].push_str(&s);
            halves[k % 2].push('\n');
            k += 1;
        }
    }
    let parts = vec![
        (halves[0].clone(), "a.graphql".to_string()),
        (halves[1].clone(), "b.graphql".to_string()),
    ];
    out.push(("multi_source", multi_source_opt_bundle(&parts, false, false)));
    out.push(("multi_source_adopt_orphans", multi_source_opt_bundle(&parts, true, false)));
    out.push(("multi_source_ignore_builtin", multi_source_opt_bundle(&parts, false, true)));
    // two different sources registered under one and the same path (a path is only a label)
    let same_path = vec![
        (halves[0].clone(), "input.graphql".to_string()),
        (halves[1].clone(), "input.graphql".to_string()),
    ];
    out.push(("multi_source_same_path", multi_source_opt_bundle(&same_path, false, false)));
    // apollo-smith generating operations against this very document (as its seed)
    if smith_seed && text.len() < 200_000 {
        let mut st = crate::core::rng::hash_str(text) ^ 0x5EED;
        let bytes: Vec<u8> = (0..2048).map(|_| crate::core::rng::splitmix64(&mut st) as u8).collect();
        let r = std::panic::catch_unwind(|| smith_operations_against(text, &bytes, 3));
        out.push((
            "smith_against_input",
            r.unwrap_or_else(|_| "# apollo-smith panicked on this seed document\n".to_string()),
        ));
    }
    let (ts_out, schema) = schema_bundle(&type_system, "schema.graphql");
    out.push(("type_system_only", ts_out));
    if let Some(schema) = &schema {
        out.push(("introspection", introspection_bundle(schema)));
        if !executable.trim().is_empty() {
            out.push(("executable", exec_bundle(schema, &executable, "exec.graphql")));
            // the executable definitions split alternately into two sources of one builder
            let mut halves = [String::new(), String::new()];
            let mut k = 0;
            for def in &doc.definitions {
                if matches!(
                    def,
                    ast::Definition::OperationDefinition(_) | ast::Definition::FragmentDefinition(_)
                ) {
                    halves[k % 2].push_str(&def.to_string());
                    halves[k % 2].push('\n');
                    k += 1;
                }
            }
            let parts = vec![
                (halves[0].clone(), "ops_a.graphql".to_string()),
                (halves[1].clone(), "ops_b.graphql".to_string()),
            ];
            out.push(("executable_builder", exec_builder_bundle(schema, &parts).0));
            // apollo-smith response generation for a valid (schema, document) pair
            if let Ok(valid_doc) = ExecutableDocument::parse_and_validate(schema, &executable, "exec.graphql") {
                let mut st = crate::core::rng::hash_str(text);
                let bytes: Vec<u8> = (0..1024).map(|_| crate::core::rng::splitmix64(&mut st) as u8).collect();
                let mut resp = String::new();
                let names: Vec<Option<String>> = valid_doc
                    .operations
                    .iter()
                    .map(|op| op.name.as_ref().map(|n| n.to_string()))
                    .collect();
                for name in names.iter().take(3) {
                    let mut u = arbitrary::Unstructured::new(&bytes);
                    let r = apollo_smith::ResponseBuilder::new(&mut u, &valid_doc, schema)
                        .with_operation_name(name.as_deref())
                        .with_max_list_size(3)
                        .build();
                    match r {
                        Ok(v) => resp.push_str(&serde_json::to_string(&v).unwrap_or_default()),
                        Err(e) => resp.push_str(&format!("ERR {e:?}")),
                    }
                    resp.push('\n');
                }
                out.push(("smith_response", resp));
            }
        }
    }
    out
}

/// apollo-smith: bytes → document text, and operation generation against a parsed document
pub fn smith_bundle(bytes: &[u8]) -> Vec<(&'static str, String)> {
    let mut out = vec![];
    let t0 = std::time::Instant::now();
    let dbg = std::env::var_os("VERIF_STAGE_TIMES").is_some();
    let mut u = arbitrary::Unstructured::new(bytes);
    let text = match apollo_smith::DocumentBuilder::new(&mut u).build() {
        Ok(doc) => String::from(doc),
        Err(e) => format!("# smith error {e}"),
    };
    out.push(("smith_document", text.clone()));
    if dbg {
        dbg_line(format!("smith_document {} bytes -> {} chars in {:?}", bytes.len(), text.len(), t0.elapsed()));
    }
    // operation generation against the (re-parsed) document
    let cst = apollo_parser::Parser::new(&text).parse();
    if cst.errors().len() == 0 {
        if let Ok(doc) = apollo_smith::Document::try_from(cst.document()) {
            let mut bytes2: Vec<u8> = bytes.iter().rev().copied().collect();
            bytes2.extend_from_slice(bytes);
            let mut u2 = arbitrary::Unstructured::new(&bytes2);
            let r = apollo_smith::DocumentBuilder::with_document(&mut u2, doc).and_then(|mut b| {
                let mut s = String::new();
                for _ in 0..3 {
                    match b.operation_definition() {
                        Ok(Some(op)) => {
                            s.push_str(&String::from(op));
                            s.push('\n');
                        }
                        Ok(None) => s.push_str("# none\n"),
                        Err(e) => {
                            s.push_str(&format!("# err {e}\n"));
                            break;
                        }
                    }
                }
                Ok(s)
            });
            out.push((
                "smith_with_document",
                match r {
                    Ok(s) => s,
                    Err(e) => format!("# smith error {e}"),
                },
            ));
        }
    }
    if dbg {
        dbg_line(format!("smith_with_document done at {:?}", t0.elapsed()));
    }
    // operation generation against hand-written seed documents: abstract-typed fields, fragments on
    // several implementers / members, input objects, directives (generated documents have none of
    // the first two)
    for (i, seed) in SMITH_SEED_DOCUMENTS.iter().enumerate() {
        out.push((
            ["smith_seed_document_0", "smith_seed_document_1"][i % 2],
            // a bounded slice of the entropy: with recursive types a long byte string yields
            // hundreds of megabytes of selection sets
            smith_operations_against(seed, &bytes[..bytes.len().min(1536)], 4),
        ));
        if dbg {
            dbg_line(format!("seed doc {i} done at {:?} ({} chars)", t0.elapsed(), out.last().unwrap().1.len()));
        }
        if dbg {
            eprintln!("seed doc {i} done at {:?} ({} chars)", t0.elapsed(), out.last().unwrap().1.len());
        }
    }
    out
}

fn dbg_line(s: String) {
    use std::io::Write as _;
    if let Ok(mut f) = std::fs::OpenOptions::new().create(true).append(true).open("/tmp/verif_stage_times.log") {
        let _ = writeln!(f, "{s}");
    }
}

pub const SMITH_SEED_DOCUMENTS: &[&str] = &[
    r#"schema { query: Query }
type Query { node: Node nodes: [Node!] item: Item title: String search(term: String): [Found] }
interface Node { id: ID! label: String next: Node }
interface Item implements Node { id: ID! label: String next: Node price: Float }
type Book implements Item & Node { id: ID! label: String next: Node price: Float pages: Int }
type Film implements Item & Node { id: ID! label: String next: Node price: Float minutes: Int }
type Shelf implements Node { id: ID! label: String next: Node books: [Book] }
type Room implements Node { id: ID! label: String next: Node shelves: [Shelf] }
union Found = Book | Film | Shelf | Room
fragment nodeId on Node { id }
fragment itemPrice on Item { price }
fragment bookPages on Book { pages }
fragment bookLabel on Book { label }
fragment filmMinutes on Film { minutes }
fragment filmLabel on Film { label }
fragment shelfBooks on Shelf { books { id } }
fragment roomShelves on Room { shelves { id } }
fragment foundBook on Found { ... on Book { id } }
"#,
    r#"schema { query: Query }
type Query { a: A b: B u: U list(first: Int = 3, where: Where): [A!]! }
interface A { x: Int y(arg: Color = RED): String }
interface B { z: [Int] }
type P implements A & B { x: Int y(arg: Color = RED): String z: [Int] p: Boolean }
type Q implements A & B { x: Int y(arg: Color = RED): String z: [Int] q: ID }
type R implements A { x: Int y(arg: Color = RED): String r: Float }
type S implements B { z: [Int] s: String }
union U = P | Q | R | S
enum Color { RED GREEN }
input Where { color: Color = GREEN tags: [String!] limit: Int }
directive @mark(level: Int) on FIELD | FRAGMENT_SPREAD | INLINE_FRAGMENT
fragment onA on A { x }
fragment onB on B { z }
fragment onP on P { p }
fragment onP2 on P { x }
fragment onQ on Q { q }
fragment onR on R { r }
fragment onS on S { s }
fragment onU on U { __typename }
"#,
];

/// `DocumentBuilder::with_document(bytes, seed)` → a few generated operations, as text
pub fn smith_operations_against(seed_text: &str, bytes: &[u8], n: usize) -> String {
    let cst = apollo_parser::Parser::new(seed_text).parse();
    if cst.errors().len() != 0 {
        return "# seed document has syntax errors\n".into();
    }
    let doc = match apollo_smith::Document::try_from(cst.document()) {
        Ok(d) => d,
        Err(e) => return format!("# seed document not accepted: {e}\n"),
    };
    let mut u = arbitrary::Unstructured::new(bytes);
    let mut s = String::new();
    match apollo_smith::DocumentBuilder::with_document(&mut u, doc) {
        Ok(mut b) => {
            for _ in 0..n {
                match b.operation_definition() {
                    Ok(Some(op)) => {
                        s.push_str(&String::from(op));
                        s.push('\n');
                    }
                    Ok(None) => s.push_str("# none\n"),
                    Err(e) => {
                        s.push_str(&format!("# err {e}\n"));
                        break;
                    }
                }
            }
        }
        Err(e) => s.push_str(&format!("# smith error {e}\n")),
    }
    s
}

/// Executable document built from several sources, then validated
pub fn exec_builder_bundle(schema: &Valid<Schema>, parts: &[(String, String)]) -> (String, Vec<u64>) {
    // start from the schema's sources: diagnostics may point into the schema's files
    let mut errors = DiagnosticList::new(schema.sources.clone());
    let mut b = ExecutableDocument::builder(Some(schema), &mut errors);
    for (text, path) in parts {
        b = b.parse(text.as_str(), path.as_str());
    }
    let doc = b.build();
    let ids: Vec<u64> = doc.sources.keys().map(|id| id.__verif_raw()).collect();
    let mut s = format!("EXEC BUILDER\n{}--doc--\n{doc}\n", diag_bundle(&errors));
    match doc.validate(schema) {
        Ok(v) => {
            let _ = write!(s, "VALID\n{v}");
        }
        Err(e) => {
            let _ = write!(s, "INVALID\n{}", diag_bundle(&e.errors));
        }
    }
    (s, ids)
}
