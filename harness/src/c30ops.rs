//! C30 workload: operation histories over a small pool of names and nodes, with a reference
//! model checked after every step. Self-contained (std + apollo-compiler + the PRNG) so that the
//! same file is compiled into the native harness and into the Miri crate (`harness/miri`).
//!
//! All values live in one `Pool` of global slots; every simulated thread executes its own list
//! of operations against those slots, so values are created on one thread, cloned on another and
//! dropped on a third as a matter of course (`Send`/`Sync`).

use crate::rng::Rng;
use apollo_compiler::parser::FileId;
use apollo_compiler::parser::SourceSpan;
use apollo_compiler::Name;
use apollo_compiler::Node;
use std::collections::hash_map::DefaultHasher;
use std::collections::BTreeMap;
use std::hash::Hash;
use std::hash::Hasher;
use std::sync::atomic::AtomicBool;
use std::sync::atomic::AtomicI64;
use std::sync::atomic::Ordering;
use std::sync::Arc;

pub const TEXTS: &[&str] = &[
    "a",
    "Query",
    "some_longer_field_name_0123456789",
    "x1",
    "__typename",
    // proper prefixes of TEXTS[2]: static names for them are sub-slices of that one static string,
    // so names with different texts share a start address
    "some",
    "some_longer",
    // longer than any plausible "short string" threshold (201 bytes)
    "L234567890123456789012345678901234567890123456789012345678901234567890123456789012345678901234567890_234567890123456789012345678901234567890123456789012345678901234567890123456789012345678901234567890",
];

/// Texts a `Node<str>` can hold: every name text plus strings that are not names (the empty
/// string — descriptions may be empty — and one with a line break and a multi-byte character)
pub const STR_EXTRA: &[&str] = &["", "d\u{e9}j\u{e0}\nvu"];

pub fn str_text(t: u8) -> &'static str {
    let t = t as usize % (TEXTS.len() + STR_EXTRA.len());
    if t < TEXTS.len() {
        TEXTS[t]
    } else {
        STR_EXTRA[t - TEXTS.len()]
    }
}

/// The `&'static str` used for static names: prefixes of the long text are slices of it
pub fn static_text(t: u8) -> &'static str {
    let text = TEXTS[t as usize];
    let long = TEXTS[2];
    if text.len() < long.len() && long.starts_with(text) {
        &long[..text.len()]
    } else {
        text
    }
}
pub const N_NAMES: usize = 8;
pub const N_ARCS: usize = 4;
pub const N_NODES: usize = 6;
pub const N_STRS: usize = 4;
pub const N_SHARED: usize = 4;

const TAG: u64 = 1 << 63;

/// File ids used for locations: BUILT_IN, small ids, ids next to the tag bit
pub fn file_raw(choice: u8) -> u64 {
    match choice % 8 {
        0 => 1,
        1 => 3,
        2 => 4,
        3 => 0xFFFF_FFFF,
        4 => (1 << 62) - 1,
        5 => 1 << 62,
        6 => TAG - 2,
        _ => TAG - 1,
    }
}

// ------------------------------------------------------------------ instrumented node payload

pub static LIVE_PAYLOADS: AtomicI64 = AtomicI64::new(0);
pub static PAYLOAD_DROPS: AtomicI64 = AtomicI64::new(0);
pub static CLONE_PANICS: AtomicBool = AtomicBool::new(false);

#[derive(Debug, PartialEq, Eq, Hash)]
pub struct Tracked {
    pub value: u64,
}

impl Tracked {
    pub fn new(value: u64) -> Self {
        LIVE_PAYLOADS.fetch_add(1, Ordering::SeqCst);
        Tracked { value }
    }
}

impl Clone for Tracked {
    fn clone(&self) -> Self {
        if CLONE_PANICS.load(Ordering::SeqCst) {
            panic!("injected: Tracked::clone panics");
        }
        Tracked::new(self.value)
    }
}

impl Drop for Tracked {
    fn drop(&mut self) {
        LIVE_PAYLOADS.fetch_sub(1, Ordering::SeqCst);
        PAYLOAD_DROPS.fetch_add(1, Ordering::SeqCst);
    }
}

// ------------------------------------------------------------------ operations

#[derive(Clone, Debug, PartialEq)]
pub enum Op {
    /// Name::new(text) into slot
    NewHeap(u8, u8),
    /// Name::new_static / name! into slot
    NewStatic(u8, u8),
    /// constructors that must fail (invalid GraphQL names): nothing may be allocated for good
    NewInvalid(u8),
    /// `TryFrom<String>` / `TryFrom<&String>` / `TryFrom<&str>` / `new_unchecked` into slot
    FromString(u8, u8, u8),
    /// Name::from_arc_unchecked / TryFrom<Arc<str>> from the witness Arc of a text
    FromArc(u8, u8, bool),
    CloneName(u8, u8),
    /// `dst.clone_from(&src)` (in-place overwrite, as `Vec::clone_from` does per element)
    CloneFrom(u8, u8),
    DropName(u8),
    /// with_location(file choice, start offset)
    WithLocation(u8, u8, u32),
    /// to_cloned_arc into arc slot
    ToClonedArc(u8, u8),
    DropArc(u8),
    /// Arc<str>::from(name) into arc slot (consumes the name)
    IntoArc(u8, u8),
    /// clone a name out of the shared, read-only Arc<[Name]>
    CloneShared(u8, u8),
    SwapNames(u8, u8),
    /// equality / ordering / hash of two slots against the model
    Compare(u8, u8),
    /// serde round trip of a slot into another slot
    Serde(u8, u8),
    /// to_component / From<&Name>
    Convert(u8, u8),
    NodeNew(u8, u64, Option<(u8, u32)>),
    NodeClone(u8, u8),
    NodeDrop(u8),
    /// make_mut then set the value; `true` = the payload's Clone panics (fault)
    NodeMakeMut(u8, u64, bool),
    NodeGetMut(u8, u64),
    NodeSameLocation(u8, u8, u64),
    NodeCompare(u8, u8),
    /// names that are not valid GraphQL names, made with the unchecked constructors (documented:
    /// "may cause invalid document serialization but not memory-safety issues"): created, cloned,
    /// compared with each other and with a slot name, hashed, dropped
    Odd(u8, u8),
    /// clone the name in a slot many times (10 / 300 / 5 000 / 70 000) into the bulk store
    BulkClone(u8, u8),
    /// drop the bulk store (0) or its older half (1)
    BulkDrop(u8),
    StrNew(u8, u8, Option<(u8, u32)>),
    StrClone(u8, u8),
    StrDrop(u8),
    StrCompare(u8, u8),
}

impl Op {
    pub fn encode(&self) -> String {
        fn loc(l: &Option<(u8, u32)>) -> String {
            match l {
                Some((f, s)) => format!("{f}@{s}"),
                None => "-".into(),
            }
        }
        match self {
            Op::NewHeap(a, b) => format!("nh {a} {b}"),
            Op::NewStatic(a, b) => format!("ns {a} {b}"),
            Op::NewInvalid(a) => format!("ni {a}"),
            Op::FromString(a, b, c) => format!("fs {a} {b} {c}"),
            Op::FromArc(a, b, c) => format!("fa {a} {b} {}", *c as u8),
            Op::CloneName(a, b) => format!("cn {a} {b}"),
            Op::CloneFrom(a, b) => format!("cf {a} {b}"),
            Op::DropName(a) => format!("dn {a}"),
            Op::WithLocation(a, b, c) => format!("wl {a} {b} {c}"),
            Op::ToClonedArc(a, b) => format!("ta {a} {b}"),
            Op::DropArc(a) => format!("da {a}"),
            Op::IntoArc(a, b) => format!("ia {a} {b}"),
            Op::CloneShared(a, b) => format!("cs {a} {b}"),
            Op::SwapNames(a, b) => format!("sw {a} {b}"),
            Op::Compare(a, b) => format!("cmp {a} {b}"),
            Op::Serde(a, b) => format!("sd {a} {b}"),
            Op::Convert(a, b) => format!("cv {a} {b}"),
            Op::NodeNew(a, v, l) => format!("Nn {a} {v} {}", loc(l)),
            Op::NodeClone(a, b) => format!("Nc {a} {b}"),
            Op::NodeDrop(a) => format!("Nd {a}"),
            Op::NodeMakeMut(a, v, p) => format!("Nm {a} {v} {}", *p as u8),
            Op::NodeGetMut(a, v) => format!("Ng {a} {v}"),
            Op::NodeSameLocation(a, b, v) => format!("Ns {a} {b} {v}"),
            Op::NodeCompare(a, b) => format!("Ncmp {a} {b}"),
            Op::Odd(a, k) => format!("odd {a} {k}"),
            Op::BulkClone(a, k) => format!("bc {a} {k}"),
            Op::BulkDrop(k) => format!("bd {k}"),
            Op::StrNew(a, t, l) => format!("Sn {a} {t} {}", loc(l)),
            Op::StrClone(a, b) => format!("Sc {a} {b}"),
            Op::StrDrop(a) => format!("Sd {a}"),
            Op::StrCompare(a, b) => format!("Scmp {a} {b}"),
        }
    }

    pub fn decode(s: &str) -> Option<Op> {
        let p: Vec<&str> = s.split(' ').collect();
        let u8_ = |i: usize| -> Option<u8> { p.get(i)?.parse().ok() };
        let u64_ = |i: usize| -> Option<u64> { p.get(i)?.parse().ok() };
        let loc = |i: usize| -> Option<Option<(u8, u32)>> {
            let t = p.get(i)?;
            if *t == "-" {
                Some(None)
            } else {
                let (f, s) = t.split_once('@')?;
                Some(Some((f.parse().ok()?, s.parse().ok()?)))
            }
        };
        Some(match *p.first()? {
            "nh" => Op::NewHeap(u8_(1)?, u8_(2)?),
            "ns" => Op::NewStatic(u8_(1)?, u8_(2)?),
            "ni" => Op::NewInvalid(u8_(1)?),
            "fs" => Op::FromString(u8_(1)?, u8_(2)?, u8_(3)?),
            "fa" => Op::FromArc(u8_(1)?, u8_(2)?, u8_(3)? != 0),
            "cn" => Op::CloneName(u8_(1)?, u8_(2)?),
            "cf" => Op::CloneFrom(u8_(1)?, u8_(2)?),
            "dn" => Op::DropName(u8_(1)?),
            "wl" => Op::WithLocation(u8_(1)?, u8_(2)?, u64_(3)? as u32),
            "ta" => Op::ToClonedArc(u8_(1)?, u8_(2)?),
            "da" => Op::DropArc(u8_(1)?),
            "ia" => Op::IntoArc(u8_(1)?, u8_(2)?),
            "cs" => Op::CloneShared(u8_(1)?, u8_(2)?),
            "sw" => Op::SwapNames(u8_(1)?, u8_(2)?),
            "cmp" => Op::Compare(u8_(1)?, u8_(2)?),
            "sd" => Op::Serde(u8_(1)?, u8_(2)?),
            "cv" => Op::Convert(u8_(1)?, u8_(2)?),
            "Nn" => Op::NodeNew(u8_(1)?, u64_(2)?, loc(3)?),
            "Nc" => Op::NodeClone(u8_(1)?, u8_(2)?),
            "Nd" => Op::NodeDrop(u8_(1)?),
            "Nm" => Op::NodeMakeMut(u8_(1)?, u64_(2)?, u8_(3)? != 0),
            "Ng" => Op::NodeGetMut(u8_(1)?, u64_(2)?),
            "Ns" => Op::NodeSameLocation(u8_(1)?, u8_(2)?, u64_(3)?),
            "Ncmp" => Op::NodeCompare(u8_(1)?, u8_(2)?),
            "odd" => Op::Odd(u8_(1)?, u8_(2)?),
            "bc" => Op::BulkClone(u8_(1)?, u8_(2)?),
            "bd" => Op::BulkDrop(u8_(1)?),
            "Sn" => Op::StrNew(u8_(1)?, u8_(2)?, loc(3)?),
            "Sc" => Op::StrClone(u8_(1)?, u8_(2)?),
            "Sd" => Op::StrDrop(u8_(1)?),
            "Scmp" => Op::StrCompare(u8_(1)?, u8_(2)?),
            _ => return None,
        })
    }
}

/// Swarm configuration of one history: which operations it concentrates on and how small the
/// slot and value spaces are (a small space makes "compare, mutate, compare the same pair again"
/// sequences and equal payloads in distinct allocations likely).
#[derive(Clone, Copy, Debug, Default)]
pub struct GenCfg {
    pub allow_clone_panic: bool,
    /// 0 = everything, 1 = names and shared strings only, 2 = nodes only
    pub focus: u8,
    pub small: bool,
}

impl GenCfg {
    pub fn draw(rng: &mut Rng) -> GenCfg {
        GenCfg {
            allow_clone_panic: rng.chance(1, 3),
            focus: match rng.below(10) {
                0..=4 => 0,
                5..=6 => 1,
                _ => 2,
            },
            small: rng.chance(1, 2),
        }
    }
}

pub fn gen_op(rng: &mut Rng, allow_clone_panic: bool) -> Op {
    gen_op_cfg(
        rng,
        &GenCfg {
            allow_clone_panic,
            focus: 0,
            small: false,
        },
    )
}

pub fn gen_op_cfg(rng: &mut Rng, cfg: &GenCfg) -> Op {
    let allow_clone_panic = cfg.allow_clone_panic;
    let lim = |n: usize| -> u64 {
        if cfg.small {
            n.min(3) as u64
        } else {
            n as u64
        }
    };
    let n = |rng: &mut Rng| rng.below(lim(N_NAMES)) as u8;
    let a = |rng: &mut Rng| rng.below(lim(N_ARCS)) as u8;
    let d = |rng: &mut Rng| rng.below(lim(N_NODES)) as u8;
    let s = |rng: &mut Rng| rng.below(lim(N_STRS)) as u8;
    let t = |rng: &mut Rng| rng.below(TEXTS.len() as u64) as u8;
    // node payloads: a small value space makes equal payloads in distinct allocations common
    let val = |rng: &mut Rng| -> u64 {
        if cfg.small || rng.chance(1, 4) {
            rng.below(3)
        } else {
            rng.below(1000)
        }
    };
    let loc = |rng: &mut Rng| -> Option<(u8, u32)> {
        if rng.chance(1, 2) {
            Some((rng.below(8) as u8, start(rng)))
        } else {
            None
        }
    };
    fn start(rng: &mut Rng) -> u32 {
        match rng.below(4) {
            0 => 0,
            1 => rng.below(1000) as u32,
            2 => u32::MAX / 2,
            // the end offset (start + len) must still fit u32
            _ => u32::MAX - 256,
        }
    }
    let kind = match cfg.focus {
        1 => rng.below(29),
        2 => 29 + rng.below(11),
        _ => rng.below(40),
    };
    match kind {
        0..=2 => Op::NewHeap(n(rng), t(rng)),
        3 => Op::NewStatic(n(rng), t(rng)),
        4 => {
            if rng.chance(1, 3) {
                if rng.chance(1, 2) {
                    Op::Odd(n(rng), rng.below(64) as u8)
                } else {
                    Op::NewInvalid(rng.below(6) as u8)
                }
            } else {
                Op::FromString(n(rng), t(rng), rng.below(4) as u8)
            }
        }
        5..=7 => Op::FromArc(n(rng), t(rng), rng.chance(1, 2)),
        8..=10 => Op::CloneName(n(rng), n(rng)),
        11 => Op::CloneFrom(n(rng), n(rng)),
        12..=14 => Op::DropName(n(rng)),
        15..=17 => Op::WithLocation(n(rng), rng.below(8) as u8, start(rng)),
        18..=19 => Op::ToClonedArc(n(rng), a(rng)),
        20 => Op::DropArc(a(rng)),
        21..=22 => Op::IntoArc(n(rng), a(rng)),
        23 => {
            if rng.chance(1, 3) {
                if rng.chance(2, 3) {
                    Op::BulkClone(n(rng), rng.below(8) as u8)
                } else {
                    Op::BulkDrop(rng.below(2) as u8)
                }
            } else {
                Op::CloneShared(rng.below(N_SHARED as u64) as u8, n(rng))
            }
        }
        24 => Op::SwapNames(n(rng), n(rng)),
        25..=26 => Op::Compare(n(rng), n(rng)),
        27 => Op::Serde(n(rng), n(rng)),
        28 => Op::Convert(n(rng), n(rng)),
        29..=30 => Op::NodeNew(d(rng), val(rng), loc(rng)),
        31..=32 => Op::NodeClone(d(rng), d(rng)),
        33 => Op::NodeDrop(d(rng)),
        34..=35 => Op::NodeMakeMut(d(rng), val(rng), allow_clone_panic && rng.chance(1, 6)),
        36 => {
            if rng.chance(1, 2) {
                Op::NodeGetMut(d(rng), val(rng))
            } else {
                Op::NodeSameLocation(d(rng), d(rng), val(rng))
            }
        }
        37 => Op::NodeCompare(d(rng), d(rng)),
        38 => {
            if rng.chance(1, 2) {
                Op::StrNew(s(rng), rng.below((TEXTS.len() + STR_EXTRA.len()) as u64) as u8, loc(rng))
            } else {
                Op::StrClone(s(rng), s(rng))
            }
        }
        _ => {
            if rng.chance(1, 2) {
                Op::StrDrop(s(rng))
            } else {
                Op::StrCompare(s(rng), s(rng))
            }
        }
    }
}

// ------------------------------------------------------------------ the pool and its model

#[derive(Clone, Debug, PartialEq)]
struct MName {
    text: u8,
    is_static: bool,
    /// backing group (heap names only)
    group: Option<u32>,
    loc: Option<(u64, u32)>,
}

#[derive(Clone, Debug, PartialEq)]
struct MNode {
    alias: u32,
    value: u64,
    loc: Option<(u64, u32, u32)>,
}

pub struct Pool {
    names: Vec<Option<Name>>,
    arcs: Vec<Option<Arc<str>>>,
    nodes: Vec<Option<Node<Tracked>>>,
    strs: Vec<Option<Node<str>>>,
    shared: Arc<[Name]>,
    witness: Vec<Arc<str>>,

    /// many clones of slot names, all alive at once (thresholds on the number of live handles)
    bulk: Vec<(Name, MName)>,
    m_names: Vec<Option<MName>>,
    /// arc slot → backing group (None: an Arc that was never a name's backing, from a static name)
    m_arcs: Vec<Option<(u8, Option<u32>)>>,
    m_nodes: Vec<Option<MNode>>,
    m_strs: Vec<Option<(u32, u8, Option<(u64, u32, u32)>)>>,
    m_shared: Vec<MName>,
    /// live handles per backing group (names + arcs held in slots + shared array members)
    groups: BTreeMap<u32, (u8, i64)>,
    next_group: u32,
    next_alias: u32,
    pub steps: u64,
    pub stats: BTreeMap<&'static str, u64>,
}

fn span(file: u64, start: u32, len: u32) -> SourceSpan {
    SourceSpan::__verif_new(
        FileId::__verif_from_raw(file).expect("valid raw file id"),
        start,
        start + len,
    )
}

fn loc_of(l: Option<SourceSpan>) -> Option<(u64, u32, u32)> {
    l.map(|l| (l.file_id().__verif_raw(), l.offset() as u32, l.end_offset() as u32))
}

fn hash_of<T: Hash + ?Sized>(t: &T) -> u64 {
    let mut h = DefaultHasher::new();
    t.hash(&mut h);
    h.finish()
}

pub type Problem = (String, String);

/// A `str` read from memory that may have been freed (poisoned) must not be trusted to be UTF-8
fn lossy(s: &str) -> String {
    String::from_utf8_lossy(s.as_bytes()).into_owned()
}

fn problem(class: &str, detail: String) -> Problem {
    (class.to_string(), detail)
}

impl Pool {
    /// `run` wraps calls into the code under test (the native harness passes the allocator
    /// tracking closure; the Miri crate passes the identity).
    pub fn new() -> Pool {
        let witness: Vec<Arc<str>> = TEXTS.iter().map(|t| Arc::from(*t)).collect();
        // the shared array: a static name, heap names on witness backings, one with a location
        let mut groups = BTreeMap::new();
        let mut m_shared = vec![];
        let mut shared = vec![];
        let mut next_group = 0u32;
        for i in 0..N_SHARED {
            let text = (i % TEXTS.len()) as u8;
            if i == 0 {
                shared.push(Name::new_static(TEXTS[text as usize]).unwrap());
                m_shared.push(MName {
                    text,
                    is_static: true,
                    group: None,
                    loc: None,
                });
            } else {
                // witness-backed group: ids 0..TEXTS.len() are reserved for witness groups
                let g = text as u32;
                let mut n = Name::from_arc_unchecked(witness[text as usize].clone());
                let mut loc = None;
                if i == 2 {
                    n = n.with_location(span(TAG - 1, 7, TEXTS[text as usize].len() as u32));
                    loc = Some((TAG - 1, 7));
                }
                groups.entry(g).or_insert((text, 0)).1 += 1;
                shared.push(n);
                m_shared.push(MName {
                    text,
                    is_static: false,
                    group: Some(g),
                    loc,
                });
            }
            next_group = TEXTS.len() as u32;
        }
        Pool {
            names: (0..N_NAMES).map(|_| None).collect(),
            arcs: (0..N_ARCS).map(|_| None).collect(),
            nodes: (0..N_NODES).map(|_| None).collect(),
            strs: (0..N_STRS).map(|_| None).collect(),
            shared: shared.into(),
            witness,
            bulk: vec![],
            m_names: vec![None; N_NAMES],
            m_arcs: vec![None; N_ARCS],
            m_nodes: vec![None; N_NODES],
            m_strs: vec![None; N_STRS],
            m_shared,
            groups,
            next_group,
            next_alias: 0,
            steps: 0,
            stats: BTreeMap::new(),
        }
    }

    fn count(&mut self, k: &'static str) {
        *self.stats.entry(k).or_default() += 1;
    }

    fn group_add(&mut self, g: Option<u32>, text: u8, delta: i64) {
        if let Some(g) = g {
            let e = self.groups.entry(g).or_insert((text, 0));
            e.1 += delta;
            if e.1 == 0 && g >= TEXTS.len() as u32 {
                self.groups.remove(&g);
            }
        }
    }

    fn forget_name(&mut self, slot: usize) {
        if let Some(m) = self.m_names[slot].take() {
            self.group_add(m.group, m.text, -1);
        }
    }

    fn forget_arc(&mut self, slot: usize) {
        if let Some((text, g)) = self.m_arcs[slot].take() {
            self.group_add(g, text, -1);
        }
    }

    /// Apply one operation to the real values and to the model.
    pub fn apply(&mut self, op: &Op) -> Result<(), Problem> {
        self.steps += 1;
        match op.clone() {
            Op::NewHeap(s, t) => {
                let s = s as usize;
                self.forget_name(s);
                self.names[s] = Some(Name::new(TEXTS[t as usize]).map_err(|e| problem("api", e.to_string()))?);
                let g = self.next_group;
                self.next_group += 1;
                self.group_add(Some(g), t, 1);
                self.m_names[s] = Some(MName {
                    text: t,
                    is_static: false,
                    group: Some(g),
                    loc: None,
                });
                self.count("op.new_heap");
            }
            Op::NewStatic(s, t) => {
                let s = s as usize;
                self.forget_name(s);
                let name = if t == 1 {
                    apollo_compiler::name!("Query")
                } else {
                    Name::new_static(static_text(t)).map_err(|e| problem("api", e.to_string()))?
                };
                self.names[s] = Some(name);
                self.m_names[s] = Some(MName {
                    text: t,
                    is_static: true,
                    group: None,
                    loc: None,
                });
                self.count("op.new_static");
            }
            Op::NewInvalid(k) => {
                let bad = ["", "1abc", "a-b", "é", "a b", "a.b"][k as usize % 6];
                let results = [
                    Name::new(bad).is_err(),
                    Name::new_static(bad).is_err(),
                    Name::try_from(bad).is_err(),
                    Name::try_from(bad.to_string()).is_err(),
                    Name::try_from(Arc::<str>::from(bad)).is_err(),
                    serde_json::from_str::<Name>(&format!("{bad:?}")).is_err(),
                    !Name::is_valid_syntax(bad),
                ];
                if results.iter().any(|ok| !ok) {
                    return Err(problem("api", format!("invalid name {bad:?} accepted: {results:?}")));
                }
                self.count("op.new_invalid");
            }
            Op::FromString(s, t, how) => {
                let s = s as usize;
                self.forget_name(s);
                let text = TEXTS[t as usize];
                let name = match how % 4 {
                    0 => Name::try_from(text.to_string()),
                    1 => Name::try_from(&text.to_string()),
                    2 => Name::try_from(text),
                    _ => Ok(Name::new_unchecked(text)),
                }
                .map_err(|e| problem("api", e.to_string()))?;
                self.names[s] = Some(name);
                let g = self.next_group;
                self.next_group += 1;
                self.group_add(Some(g), t, 1);
                self.m_names[s] = Some(MName {
                    text: t,
                    is_static: false,
                    group: Some(g),
                    loc: None,
                });
                self.count("op.from_string");
            }
            Op::FromArc(s, t, try_from) => {
                let s = s as usize;
                self.forget_name(s);
                let arc = self.witness[t as usize].clone();
                let name = if try_from {
                    Name::try_from(arc).map_err(|e| problem("api", e.to_string()))?
                } else {
                    Name::from_arc_unchecked(arc)
                };
                self.names[s] = Some(name);
                self.group_add(Some(t as u32), t, 1);
                self.m_names[s] = Some(MName {
                    text: t,
                    is_static: false,
                    group: Some(t as u32),
                    loc: None,
                });
                self.count("op.from_arc");
            }
            Op::CloneName(a, b) => {
                let (a, b) = (a as usize, b as usize);
                if a != b {
                    if let Some(m) = self.m_names[a].clone() {
                        let c = self.names[a].as_ref().unwrap().clone();
                        self.forget_name(b);
                        self.names[b] = Some(c);
                        self.group_add(m.group, m.text, 1);
                        self.m_names[b] = Some(m);
                        self.count("op.clone_name");
                    }
                }
            }
            Op::CloneFrom(a, b) => {
                let (a, b) = (a as usize, b as usize);
                if a != b {
                    if let Some(m) = self.m_names[a].clone() {
                        if self.m_names[b].is_some() {
                            let (src, dst) = if a < b {
                                let (l, r) = self.names.split_at_mut(b);
                                (l[a].as_ref().unwrap(), r[0].as_mut().unwrap())
                            } else {
                                let (l, r) = self.names.split_at_mut(a);
                                (r[0].as_ref().unwrap(), l[b].as_mut().unwrap())
                            };
                            dst.clone_from(src);
                            self.forget_name(b);
                        } else {
                            self.names[b] = Some(self.names[a].as_ref().unwrap().clone());
                        }
                        self.group_add(m.group, m.text, 1);
                        self.m_names[b] = Some(m);
                        self.count("op.clone_from");
                    }
                }
            }
            Op::DropName(a) => {
                let a = a as usize;
                if self.m_names[a].is_some() {
                    self.forget_name(a);
                    self.names[a] = None;
                    self.count("op.drop_name");
                }
            }
            Op::WithLocation(a, f, start) => {
                let a = a as usize;
                if let Some(mut m) = self.m_names[a].clone() {
                    let raw = file_raw(f);
                    let len = TEXTS[m.text as usize].len() as u32;
                    let n = self.names[a].take().unwrap();
                    self.names[a] = Some(n.with_location(span(raw, start, len)));
                    // file id 2 is the "no location" id by design
                    m.loc = if raw == 2 { None } else { Some((raw, start)) };
                    self.m_names[a] = Some(m);
                    self.count("op.with_location");
                }
            }
            Op::ToClonedArc(a, slot) => {
                let (a, slot) = (a as usize, slot as usize);
                if let Some(m) = self.m_names[a].clone() {
                    let arc = self.names[a].as_ref().unwrap().to_cloned_arc();
                    if arc.is_some() == m.is_static {
                        return Err(problem(
                            "static_iff_no_arc",
                            format!("to_cloned_arc().is_some() = {} for a {} name", arc.is_some(), if m.is_static { "static" } else { "heap" }),
                        ));
                    }
                    if let Some(arc) = arc {
                        if arc.as_bytes() != TEXTS[m.text as usize].as_bytes() {
                            return Err(problem("text_mismatch", format!("to_cloned_arc text {:?}", lossy(&arc))));
                        }
                        self.forget_arc(slot);
                        self.arcs[slot] = Some(arc);
                        self.group_add(m.group, m.text, 1);
                        self.m_arcs[slot] = Some((m.text, m.group));
                        self.count("op.to_cloned_arc");
                    }
                }
            }
            Op::DropArc(slot) => {
                let slot = slot as usize;
                if self.m_arcs[slot].is_some() {
                    self.forget_arc(slot);
                    self.arcs[slot] = None;
                    self.count("op.drop_arc");
                }
            }
            Op::IntoArc(a, slot) => {
                let (a, slot) = (a as usize, slot as usize);
                if let Some(m) = self.m_names[a].clone() {
                    let name = self.names[a].take().unwrap();
                    let arc: Arc<str> = name.into();
                    if arc.as_bytes() != TEXTS[m.text as usize].as_bytes() {
                        return Err(problem("text_mismatch", format!("Arc<str>::from(name) = {:?}", lossy(&arc))));
                    }
                    // the name is consumed; a heap name's backing is handed on (or re-counted)
                    self.m_names[a] = None;
                    self.forget_arc(slot);
                    self.arcs[slot] = Some(arc);
                    if m.is_static {
                        self.m_arcs[slot] = Some((m.text, None));
                    } else {
                        // net effect on the group: -1 name +1 arc
                        self.m_arcs[slot] = Some((m.text, m.group));
                    }
                    self.count("op.into_arc");
                }
            }
            Op::CloneShared(i, b) => {
                let (i, b) = (i as usize, b as usize);
                let m = self.m_shared[i].clone();
                let c = self.shared[i].clone();
                self.forget_name(b);
                self.names[b] = Some(c);
                self.group_add(m.group, m.text, 1);
                self.m_names[b] = Some(m);
                self.count("op.clone_shared");
            }
            Op::SwapNames(a, b) => {
                self.names.swap(a as usize, b as usize);
                self.m_names.swap(a as usize, b as usize);
            }
            Op::Compare(a, b) => {
                let (a, b) = (a as usize, b as usize);
                if let (Some(ma), Some(mb)) = (&self.m_names[a], &self.m_names[b]) {
                    let (na, nb) = (self.names[a].as_ref().unwrap(), self.names[b].as_ref().unwrap());
                    let (ta, tb) = (TEXTS[ma.text as usize], TEXTS[mb.text as usize]);
                    if (na == nb) != (ta == tb)
                        || na.cmp(nb) != ta.cmp(tb)
                        || (hash_of(na) == hash_of(nb)) != (ta == tb)
                        || hash_of(na) != hash_of(ta)
                        || (*na == *tb) != (ta == tb)
                    {
                        return Err(problem(
                            "eq_ord_hash",
                            format!("names {ta:?} (loc {:?}) and {tb:?} (loc {:?}): eq {} cmp {:?} hash-eq {}", ma.loc, mb.loc, na == nb, na.cmp(nb), hash_of(na) == hash_of(nb)),
                        ));
                    }
                    // comparison / borrowing impls used when names are map keys
                    use std::borrow::Borrow;
                    let borrowed: &str = na.borrow();
                    let as_ref: &str = na.as_ref();
                    let deref: &str = na;
                    if borrowed != ta
                        || as_ref != ta
                        || deref != ta
                        || na.partial_cmp(tb) != ta.partial_cmp(tb)
                        || na.partial_cmp(&tb) != ta.partial_cmp(tb)
                        || (*na == tb) != (ta == tb)
                        || na.to_string() != ta
                        || format!("{na:?}") != format!("{ta:?}")
                    {
                        return Err(problem("eq_ord_hash", format!("str views of name {ta:?} compared with {tb:?}")));
                    }
                    let mut hm: std::collections::HashMap<Name, u8> = std::collections::HashMap::new();
                    hm.insert(na.clone(), 1);
                    let mut bm: std::collections::BTreeMap<Name, u8> = std::collections::BTreeMap::new();
                    bm.insert(na.clone(), 1);
                    if hm.get(tb).is_some() != (ta == tb)
                        || bm.get(tb).is_some() != (ta == tb)
                        || hm.get(nb).is_some() != (ta == tb)
                        || hm.get(ta) != Some(&1)
                    {
                        return Err(problem("eq_ord_hash", format!("map lookup of {tb:?} in a map keyed by name {ta:?}")));
                    }
                    self.count("op.compare");
                }
            }
            Op::Serde(a, b) => {
                let (a, b) = (a as usize, b as usize);
                if a != b {
                    if let Some(m) = self.m_names[a].clone() {
                        let json = serde_json::to_string(self.names[a].as_ref().unwrap()).map_err(|e| problem("api", e.to_string()))?;
                        let back: Name = serde_json::from_str(&json).map_err(|e| problem("api", e.to_string()))?;
                        self.forget_name(b);
                        self.names[b] = Some(back);
                        let g = self.next_group;
                        self.next_group += 1;
                        self.group_add(Some(g), m.text, 1);
                        self.m_names[b] = Some(MName {
                            text: m.text,
                            is_static: false,
                            group: Some(g),
                            loc: None,
                        });
                        self.count("op.serde");
                    }
                }
            }
            Op::Convert(a, b) => {
                let (a, b) = (a as usize, b as usize);
                if a != b {
                    if let Some(m) = self.m_names[a].clone() {
                        let comp = self.names[a]
                            .as_ref()
                            .unwrap()
                            .to_component(apollo_compiler::schema::ComponentOrigin::Definition);
                        let back: Name = Name::from(&comp.name);
                        drop(comp);
                        self.forget_name(b);
                        self.names[b] = Some(back);
                        self.group_add(m.group, m.text, 1);
                        self.m_names[b] = Some(m);
                        self.count("op.convert");
                    }
                }
            }
            Op::NodeNew(s, v, loc) => {
                let s = s as usize;
                let node = match loc {
                    Some((f, start)) => Node::new_parsed(Tracked::new(v), span(file_raw(f), start, 3)),
                    None => Node::new(Tracked::new(v)),
                };
                self.nodes[s] = Some(node);
                let alias = self.next_alias;
                self.next_alias += 1;
                self.m_nodes[s] = Some(MNode {
                    alias,
                    value: v,
                    loc: loc.map(|(f, start)| (file_raw(f), start, start + 3)),
                });
                self.count("op.node_new");
            }
            Op::NodeClone(a, b) => {
                let (a, b) = (a as usize, b as usize);
                if a != b {
                    if let Some(m) = self.m_nodes[a].clone() {
                        let c = self.nodes[a].as_ref().unwrap().clone();
                        self.nodes[b] = Some(c);
                        self.m_nodes[b] = Some(m);
                        self.count("op.node_clone");
                    }
                }
            }
            Op::NodeDrop(a) => {
                self.nodes[a as usize] = None;
                self.m_nodes[a as usize] = None;
            }
            Op::NodeMakeMut(a, v, panics) => {
                let a = a as usize;
                if let Some(mut m) = self.m_nodes[a].clone() {
                    let shared = self
                        .m_nodes
                        .iter()
                        .enumerate()
                        .any(|(i, o)| i != a && o.as_ref().is_some_and(|o| o.alias == m.alias));
                    if panics && shared {
                        // fault: the payload's Clone panics inside make_mut; nothing may change
                        CLONE_PANICS.store(true, Ordering::SeqCst);
                        let node = self.nodes[a].as_mut().unwrap();
                        let r = std::panic::catch_unwind(std::panic::AssertUnwindSafe(|| {
                            node.make_mut().value = v;
                        }));
                        CLONE_PANICS.store(false, Ordering::SeqCst);
                        if r.is_ok() {
                            return Err(problem("make_mut", "shared node mutated without cloning the payload".into()));
                        }
                        self.count("fault.clone_panics_in_make_mut");
                    } else {
                        self.nodes[a].as_mut().unwrap().make_mut().value = v;
                        m.value = v;
                        if shared {
                            m.alias = self.next_alias;
                            self.next_alias += 1;
                            self.count("op.make_mut_copy_on_write");
                        } else {
                            self.count("op.make_mut_in_place");
                        }
                        self.m_nodes[a] = Some(m);
                    }
                }
            }
            Op::NodeGetMut(a, v) => {
                let a = a as usize;
                if let Some(mut m) = self.m_nodes[a].clone() {
                    let unique = !self
                        .m_nodes
                        .iter()
                        .enumerate()
                        .any(|(i, o)| i != a && o.as_ref().is_some_and(|o| o.alias == m.alias));
                    match self.nodes[a].as_mut().unwrap().get_mut() {
                        Some(t) => {
                            if !unique {
                                return Err(problem("get_mut", "get_mut() gave access to a shared node".into()));
                            }
                            t.value = v;
                            m.value = v;
                            self.m_nodes[a] = Some(m);
                        }
                        None => {
                            if unique {
                                return Err(problem("get_mut", "get_mut() refused a uniquely owned node".into()));
                            }
                        }
                    }
                    self.count("op.get_mut");
                }
            }
            Op::NodeSameLocation(a, b, v) => {
                let (a, b) = (a as usize, b as usize);
                if let Some(m) = self.m_nodes[a].clone() {
                    let n = self.nodes[a].as_ref().unwrap().same_location(Tracked::new(v));
                    self.nodes[b] = Some(n);
                    let alias = self.next_alias;
                    self.next_alias += 1;
                    self.m_nodes[b] = Some(MNode {
                        alias,
                        value: v,
                        loc: m.loc,
                    });
                    self.count("op.same_location");
                }
            }
            Op::NodeCompare(a, b) => {
                let (a, b) = (a as usize, b as usize);
                if let (Some(ma), Some(mb)) = (&self.m_nodes[a], &self.m_nodes[b]) {
                    let (na, nb) = (self.nodes[a].as_ref().unwrap(), self.nodes[b].as_ref().unwrap());
                    // a component shares the node, it does not copy it
                    let comp = na.to_component(apollo_compiler::schema::ComponentOrigin::Definition);
                    if !comp.node.ptr_eq(na) || comp.value != ma.value || loc_of(comp.location()) != ma.loc {
                        return Err(problem("node_eq_hash_ptr_eq", "to_component does not share the node".into()));
                    }
                    drop(comp);
                    if (na == nb) != (ma.value == mb.value)
                        || (hash_of(na) == hash_of(nb)) != (ma.value == mb.value)
                        || na.ptr_eq(nb) != (ma.alias == mb.alias)
                    {
                        return Err(problem(
                            "node_eq_hash_ptr_eq",
                            format!("nodes value {} (loc {:?}, alias {}) and {} (loc {:?}, alias {}): eq {} ptr_eq {}", ma.value, ma.loc, ma.alias, mb.value, mb.loc, mb.alias, na == nb, na.ptr_eq(nb)),
                        ));
                    }
                    self.count("op.node_compare");
                }
            }
            Op::Odd(a, k) => {
                const ODD: [&str; 4] = ["", "a-b", "\u{e9}", "two words"];
                let make = |how: u8, text: &'static str| -> Name {
                    match how % 3 {
                        0 => Name::new_unchecked(text),
                        1 => Name::new_static_unchecked(text),
                        _ => Name::from_arc_unchecked(Arc::from(text)),
                    }
                };
                let (ta, tb) = (ODD[(k & 3) as usize], ODD[((k >> 2) & 3) as usize]);
                let x = make(k >> 4, ta);
                let y = make((k >> 4) + 1 + (k & 1), tb);
                let x2 = x.clone().with_location(span(3, 0, ta.len() as u32));
                let mut pairs: Vec<(&Name, &str)> = vec![(&x, ta), (&y, tb), (&x2, ta)];
                let slot_text;
                if let Some(m) = &self.m_names[a as usize] {
                    slot_text = TEXTS[m.text as usize];
                    pairs.push((self.names[a as usize].as_ref().unwrap(), slot_text));
                }
                for (n, t) in &pairs {
                    if n.as_str() != *t || n.len() != t.len() || n.is_empty() != t.is_empty() {
                        return Err(problem("text_mismatch", format!("unchecked name reads {:?}, made from {t:?}", lossy(n.as_str()))));
                    }
                    if hash_of(*n) != hash_of(*t) || **n != **t {
                        return Err(problem("eq_ord_hash", format!("unchecked name {t:?} does not hash / compare like its text")));
                    }
                }
                for (n1, t1) in &pairs {
                    for (n2, t2) in &pairs {
                        if (n1 == n2) != (t1 == t2) || n1.cmp(n2) != t1.cmp(t2) || (hash_of(*n1) == hash_of(*n2)) != (t1 == t2) {
                            return Err(problem(
                                "eq_ord_hash",
                                format!("unchecked names {t1:?} and {t2:?}: eq {} cmp {:?}", n1 == n2, n1.cmp(n2)),
                            ));
                        }
                    }
                }
                let set: std::collections::HashSet<Name> = pairs.iter().map(|(n, _)| (*n).clone()).collect();
                let distinct: std::collections::BTreeSet<&str> = pairs.iter().map(|(_, t)| *t).collect();
                if set.len() != distinct.len() || distinct.iter().any(|t| !set.contains(*t)) {
                    return Err(problem("eq_ord_hash", "a HashSet<Name> of unchecked names does not behave like a set of their texts".into()));
                }
                self.count("op.odd_names");
            }
            Op::BulkClone(a, k) => {
                let a = a as usize;
                if let Some(m) = self.m_names[a].clone() {
                    let n = match k {
                        0..=2 => 10usize,
                        3..=4 => 300,
                        5..=6 => 5_000,
                        _ => 70_000,
                    };
                    // under Miri every clone costs microseconds of interpretation
                    let n = if cfg!(miri) { n.min(64) } else { n };
                    // keep the store bounded: at most ~150 000 handles alive
                    if self.bulk.len() + n <= 150_000 {
                        for i in 0..n {
                            let c = self.names[a].as_ref().unwrap().clone();
                            Self::check_name(&c, &m, &format!("bulk clone #{} of slot {a}", self.bulk.len() + i))?;
                            self.bulk.push((c, m.clone()));
                        }
                        self.group_add(m.group, m.text, n as i64);
                        self.count("op.bulk_clone");
                        if n >= 5_000 {
                            self.count("probe.bulk_clone_5000_or_more");
                        }
                    }
                }
            }
            Op::BulkDrop(k) => {
                let n = if k == 0 { self.bulk.len() } else { self.bulk.len() / 2 };
                let dropped: Vec<(Name, MName)> = self.bulk.drain(..n).collect();
                for (name, m) in dropped {
                    Self::check_name(&name, &m, "bulk clone at drop")?;
                    self.group_add(m.group, m.text, -1);
                    drop(name);
                }
                self.count("op.bulk_drop");
            }
            Op::StrNew(s, t, loc) => {
                let s = s as usize;
                let text = str_text(t);
                let node = match loc {
                    Some((f, start)) => Node::new_str_parsed(text, span(file_raw(f), start, text.len() as u32)),
                    None => Node::new_str(text),
                };
                self.strs[s] = Some(node);
                let alias = self.next_alias;
                self.next_alias += 1;
                let t = (t as usize % (TEXTS.len() + STR_EXTRA.len())) as u8;
                self.m_strs[s] = Some((alias, t, loc.map(|(f, start)| (file_raw(f), start, start + text.len() as u32))));
                self.count("op.str_new");
            }
            Op::StrClone(a, b) => {
                let (a, b) = (a as usize, b as usize);
                if a != b {
                    if let Some(m) = self.m_strs[a] {
                        self.strs[b] = Some(self.strs[a].as_ref().unwrap().clone());
                        self.m_strs[b] = Some(m);
                    }
                }
            }
            Op::StrDrop(a) => {
                self.strs[a as usize] = None;
                self.m_strs[a as usize] = None;
            }
            Op::StrCompare(a, b) => {
                let (a, b) = (a as usize, b as usize);
                if let (Some(ma), Some(mb)) = (&self.m_strs[a], &self.m_strs[b]) {
                    let (na, nb) = (self.strs[a].as_ref().unwrap(), self.strs[b].as_ref().unwrap());
                    if (na == nb) != (ma.1 == mb.1)
                        || (hash_of(na) == hash_of(nb)) != (ma.1 == mb.1)
                        || na.ptr_eq(nb) != (ma.0 == mb.0)
                    {
                        return Err(problem("node_eq_hash_ptr_eq", format!("Node<str> {:?} vs {:?}", lossy(na.as_str()), lossy(nb.as_str()))));
                    }
                    // conversions to and from String keep the text
                    let owned: String = String::from(na);
                    let back: Node<str> = Node::from(owned.clone());
                    let back2: Node<str> = Node::from(&owned);
                    if owned != str_text(ma.1) || back != *na || back2.as_str() != owned || back.location().is_some() {
                        return Err(problem("node_value", format!("Node<str> <-> String conversion of {:?}", lossy(na.as_str()))));
                    }
                }
            }
        }
        Ok(())
    }

    /// Cross-check every slot and every backing string against the model.
    pub fn check(&mut self) -> Result<(), Problem> {
        for i in 0..N_NAMES {
            let Some(m) = &self.m_names[i] else {
                if self.names[i].is_some() {
                    return Err(problem("harness", format!("slot {i} out of sync")));
                }
                continue;
            };
            let n = self.names[i].as_ref().unwrap();
            Self::check_name(n, m, &format!("slot {i}"))?;
        }
        for (i, m) in self.m_shared.iter().enumerate() {
            Self::check_name(&self.shared[i], m, &format!("shared[{i}]"))?;
        }
        // the property's own state variable: the strong count of every backing string
        for (g, (text, live)) in &self.groups {
            let g = *g;
            if (g as usize) < TEXTS.len() {
                let actual = Arc::strong_count(&self.witness[g as usize]) as i64;
                if actual != 1 + live {
                    return Err(problem(
                        "strong_count",
                        format!("backing string {:?}: strong count {actual}, model says 1 witness + {live} live handles", TEXTS[*text as usize]),
                    ));
                }
            } else {
                // no witness: observe through any member (to_cloned_arc adds one, temporarily)
                let member = self
                    .m_names
                    .iter()
                    .position(|m| m.as_ref().is_some_and(|m| m.group == Some(g)));
                let actual = if let Some(i) = member {
                    let arc = self.names[i].as_ref().unwrap().to_cloned_arc();
                    match arc {
                        Some(arc) => Arc::strong_count(&arc) as i64 - 1,
                        None => {
                            return Err(problem("static_iff_no_arc", format!("heap name in slot {i} has no Arc")));
                        }
                    }
                } else if let Some(j) = self.m_arcs.iter().position(|a| a.is_some_and(|(_, gg)| gg == Some(g))) {
                    Arc::strong_count(self.arcs[j].as_ref().unwrap()) as i64
                } else {
                    continue;
                };
                if actual != *live {
                    return Err(problem(
                        "strong_count",
                        format!("backing string {:?} (group {g}): strong count {actual}, model says {live} live handles", TEXTS[*text as usize]),
                    ));
                }
            }
        }
        for (j, a) in self.m_arcs.iter().enumerate() {
            if let Some((text, _)) = a {
                if self.arcs[j].as_ref().unwrap().as_bytes() != TEXTS[*text as usize].as_bytes() {
                    return Err(problem("text_mismatch", format!("arc slot {j}")));
                }
            }
        }
        for i in 0..N_NODES {
            if let Some(m) = &self.m_nodes[i] {
                let n = self.nodes[i].as_ref().unwrap();
                if n.value != m.value {
                    return Err(problem(
                        "node_value",
                        format!("node slot {i} reads {} but {} was written (mutating one node changed its clone, or a write was lost)", n.value, m.value),
                    ));
                }
                if loc_of(n.location()) != m.loc {
                    return Err(problem("node_location", format!("node slot {i}: location {:?}, expected {:?}", loc_of(n.location()), m.loc)));
                }
                for j in 0..N_NODES {
                    if let Some(mj) = &self.m_nodes[j] {
                        if n.ptr_eq(self.nodes[j].as_ref().unwrap()) != (m.alias == mj.alias) {
                            return Err(problem("node_eq_hash_ptr_eq", format!("ptr_eq of node slots {i} and {j}")));
                        }
                    }
                }
            }
        }
        for i in 0..N_STRS {
            if let Some((_, t, loc)) = &self.m_strs[i] {
                let n = self.strs[i].as_ref().unwrap();
                if n.as_str() != str_text(*t) || loc_of(n.location()) != *loc {
                    return Err(problem("node_value", format!("Node<str> slot {i}: {:?} @ {:?}", lossy(n.as_str()), loc_of(n.location()))));
                }
            }
        }
        let live_nodes: std::collections::BTreeSet<u32> = self.m_nodes.iter().flatten().map(|m| m.alias).collect();
        let live_payloads = LIVE_PAYLOADS.load(Ordering::SeqCst);
        if live_payloads != live_nodes.len() as i64 {
            return Err(problem(
                "payload_count",
                format!("{live_payloads} node payloads are alive, the model has {} distinct nodes", live_nodes.len()),
            ));
        }
        Ok(())
    }

    fn check_name(n: &Name, m: &MName, what: &str) -> Result<(), Problem> {
        let text = TEXTS[m.text as usize];
        if n.as_str().as_bytes() != text.as_bytes() || n.len() != text.len() {
            return Err(problem(
                "text_mismatch",
                format!("{what}: reads {:?}, expected {text:?}", String::from_utf8_lossy(n.as_str().as_bytes())),
            ));
        }
        let loc = n.location().map(|l| (l.file_id().__verif_raw(), l.offset() as u32));
        if loc != m.loc {
            return Err(problem("location_mismatch", format!("{what} ({text:?}): location {loc:?}, expected {:?}", m.loc)));
        }
        if let Some(l) = n.location() {
            if l.node_len() != text.len() {
                return Err(problem("location_mismatch", format!("{what}: span length {}", l.node_len())));
            }
        }
        if n.as_static_str().is_some() != m.is_static {
            return Err(problem(
                "static_iff_no_arc",
                format!("{what} ({text:?}): as_static_str().is_some() = {}, created {}", n.as_static_str().is_some(), if m.is_static { "static" } else { "from a heap string" }),
            ));
        }
        if let Some(s) = n.as_static_str() {
            if s != text {
                return Err(problem("text_mismatch", format!("{what}: as_static_str {:?}", lossy(s))));
            }
        }
        Ok(())
    }

    /// Drop everything, then check conservation: counts back to one, no payload alive.
    pub fn finish(mut self) -> Result<BTreeMap<&'static str, u64>, Problem> {
        for i in 0..N_NAMES {
            self.forget_name(i);
            self.names[i] = None;
        }
        for i in 0..N_ARCS {
            self.forget_arc(i);
            self.arcs[i] = None;
        }
        for (name, m) in std::mem::take(&mut self.bulk) {
            Self::check_name(&name, &m, "bulk clone at the end")?;
            self.group_add(m.group, m.text, -1);
        }
        self.nodes.iter_mut().for_each(|n| *n = None);
        self.strs.iter_mut().for_each(|n| *n = None);
        self.m_nodes.iter_mut().for_each(|n| *n = None);
        let shared = std::mem::replace(&mut self.shared, Vec::new().into());
        drop(shared);
        for (i, w) in self.witness.iter().enumerate() {
            let c = Arc::strong_count(w);
            if c != 1 {
                return Err(problem(
                    "leak_or_double_free",
                    format!("after dropping every name, backing string {:?} has strong count {c} (expected 1)", TEXTS[i]),
                ));
            }
        }
        let live = LIVE_PAYLOADS.load(Ordering::SeqCst);
        if live != 0 {
            return Err(problem("leak_or_double_free", format!("{live} node payloads alive after dropping every node")));
        }
        Ok(std::mem::take(&mut self.stats))
    }
}
