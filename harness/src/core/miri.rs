//! Driver for the Miri tiers (`harness/miri`): `cargo +nightly miri run` with
//! `-Zmiri-many-seeds`; one Miri seed is one repeatable execution and is the replay handle.

use crate::core::batch::verif_root;
use crate::core::batch::Violation;
use serde_json::json;
use serde_json::Value as J;
use std::process::Command;
use std::time::Instant;

pub struct Job {
    pub mode: &'static str,
    pub workload_seed: u64,
    pub workload_count: u64,
    pub miri_seeds: u64,
    pub flags: &'static str,
}

pub const FLAGS_STRICT: &str = "-Zmiri-preemption-rate=0.1";
/// rowan (third party) trips Miri's aliasing models as soon as anything is parsed; everything
/// else (use-after-free, double free, data races, leaks) stays on
pub const FLAGS_PARSING: &str = "-Zmiri-preemption-rate=0.05 -Zmiri-disable-stacked-borrows";

fn base_command(miri_flags: &str) -> Command {
    let dir = verif_root().join("harness").join("miri");
    let mut cmd = Command::new("cargo");
    cmd.current_dir(dir)
        .arg("+nightly")
        .arg("miri")
        .arg("run")
        .arg("--offline")
        .arg("-q")
        .env("RUSTFLAGS", "--cfg apollo_rs_verif")
        .env("CARGO_NET_OFFLINE", "true")
        .env("MIRIFLAGS", miri_flags)
        .env_remove("CARGO_ENCODED_RUSTFLAGS");
    cmd
}

fn failure_message(text: &str) -> String {
    for l in text.lines() {
        if let Some(m) = l.strip_prefix("MIRI-TIER-VIOLATION ") {
            return m.chars().take(600).collect();
        }
    }
    for l in text.lines() {
        if l.starts_with("error:") && !l.contains("aborting due to") {
            return l.chars().take(400).collect();
        }
    }
    "Miri reported a failure (no message captured)".into()
}

fn class_of(msg: &str) -> String {
    if let Some(rest) = msg.strip_prefix("class=") {
        return format!("miri_{}", rest.split(' ').next().unwrap_or("violation"));
    }
    if msg.contains("Data race") || msg.contains("data race") {
        "miri_data_race".into()
    } else if msg.contains("leak") {
        "miri_leak".into()
    } else if msg.contains("Undefined Behavior") {
        "miri_undefined_behavior".into()
    } else {
        "miri_failure".into()
    }
}

pub struct Outcome {
    pub evidence: J,
    pub violation: Option<(Violation, J)>,
}

/// Run one job over `0..miri_seeds`. Err = harness/build problem (never a violation).
pub fn run_job(job: &Job) -> Result<Outcome, String> {
    let started = Instant::now();
    let flags = format!("-Zmiri-many-seeds=0..{} {}", job.miri_seeds, job.flags);
    let out = base_command(&flags)
        .arg("--")
        .arg(job.mode)
        .arg(job.workload_seed.to_string())
        .arg(job.workload_count.to_string())
        .output()
        .map_err(|e| format!("cannot run cargo miri: {e}"))?;
    let text = format!(
        "{}\n{}",
        String::from_utf8_lossy(&out.stdout),
        String::from_utf8_lossy(&out.stderr)
    );
    let tried = text.matches("Trying seed:").count() as u64;
    if tried == 0 {
        return Err(format!(
            "cargo miri did not get as far as running ({}): {}",
            out.status,
            text.lines().rev().take(12).collect::<Vec<_>>().join(" | ")
        ));
    }
    let failing = text
        .lines()
        .find_map(|l| l.trim().strip_prefix("FAILING SEED:").map(|s| s.trim().to_string()))
        .and_then(|s| s.parse::<u64>().ok());
    let evidence = json!({
        "mode": job.mode,
        "workload_seed": job.workload_seed,
        "workloads_per_execution": job.workload_count,
        "miri_seeds": job.miri_seeds,
        "executions": tried,
        "flags": job.flags,
        "wall_s": started.elapsed().as_secs_f64(),
        "failed": failing.is_some() || !out.status.success(),
    });
    let violation = if out.status.success() {
        None
    } else {
        let msg = failure_message(&text);
        let v = Violation {
            class: class_of(&msg),
            detail: format!("Miri tier `{}` workload seed {}: {msg}", job.mode, job.workload_seed),
        };
        let case = json!({"miri": {
            "mode": job.mode,
            "workload_seed": job.workload_seed,
            "workload_count": job.workload_count,
            "miri_seed": failing,
            "flags": job.flags,
        }});
        Some((v, case))
    };
    Ok(Outcome { evidence, violation })
}

/// Replay of a Miri-tier case: the same mode and workload under the recorded Miri seed
pub fn replay(case: &J) -> Result<Option<Violation>, String> {
    let m = &case["miri"];
    let mode = m["mode"].as_str().ok_or("miri.mode")?;
    let ws = m["workload_seed"].as_u64().ok_or("miri.workload_seed")?;
    let wc = m["workload_count"].as_u64().unwrap_or(1);
    let flags = m["flags"].as_str().unwrap_or("");
    let flags = match m["miri_seed"].as_u64() {
        Some(seed) => format!("-Zmiri-seed={seed} {flags}"),
        None => flags.to_string(),
    };
    let out = base_command(&flags)
        .arg("--")
        .arg(mode)
        .arg(ws.to_string())
        .arg(wc.to_string())
        .output()
        .map_err(|e| format!("cannot run cargo miri: {e}"))?;
    if out.status.success() {
        return Ok(None);
    }
    let text = format!(
        "{}\n{}",
        String::from_utf8_lossy(&out.stdout),
        String::from_utf8_lossy(&out.stderr)
    );
    if !text.contains("MIRI-TIER-VIOLATION") && !text.contains("error: Undefined Behavior") && !text.contains("error: memory leaked") && !text.contains("Data race") {
        return Err(format!("cargo miri failed without a recognisable report: {}", text.lines().rev().take(8).collect::<Vec<_>>().join(" | ")));
    }
    let msg = failure_message(&text);
    Ok(Some(Violation {
        class: class_of(&msg),
        detail: format!("Miri tier `{mode}` workload seed {ws}: {msg}"),
    }))
}

/// Run jobs a few at a time (each `cargo miri run` already runs its Miri seeds in parallel).
pub fn run_jobs(jobs: Vec<Job>, parallel: usize) -> Result<(J, Vec<(Violation, J)>), String> {
    let jobs = std::sync::Arc::new(std::sync::Mutex::new(jobs.into_iter().enumerate().collect::<Vec<_>>()));
    let results = std::sync::Arc::new(std::sync::Mutex::new(Vec::<(usize, Result<Outcome, String>)>::new()));
    // build once, sequentially, so that parallel invocations do not fight over the build lock
    let mut handles = vec![];
    for _ in 0..parallel.max(1) {
        let jobs = jobs.clone();
        let results = results.clone();
        handles.push(std::thread::spawn(move || loop {
            let next = jobs.lock().unwrap().pop();
            let Some((i, job)) = next else { break };
            let r = run_job(&job);
            results.lock().unwrap().push((i, r));
        }));
    }
    for h in handles {
        let _ = h.join();
    }
    let mut results = std::mem::take(&mut *results.lock().unwrap());
    results.sort_by_key(|(i, _)| *i);
    let mut evidence = vec![];
    let mut violations = vec![];
    for (_, r) in results {
        let out = r?;
        evidence.push(out.evidence);
        if let Some(v) = out.violation {
            violations.push(v);
        }
    }
    Ok((json!({"miri": evidence}), violations))
}
