pub mod batch;
pub mod rng;
