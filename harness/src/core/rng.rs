//! SplitMix64 → xoshiro256** generator. No dependency, stable stream across toolchains:
//! one integer decides everything.

#[derive(Clone, Debug)]
pub struct Rng {
    s: [u64; 4],
}

pub fn splitmix64(state: &mut u64) -> u64 {
    *state = state.wrapping_add(0x9E37_79B9_7F4A_7C15);
    let mut z = *state;
    z = (z ^ (z >> 30)).wrapping_mul(0xBF58_476D_1CE4_E5B9);
    z = (z ^ (z >> 27)).wrapping_mul(0x94D0_49BB_1331_11EB);
    z ^ (z >> 31)
}

/// Stateless mix of several integers into one (used to derive run seeds and sub-streams)
pub fn mix(parts: &[u64]) -> u64 {
    let mut st = 0x243F_6A88_85A3_08D3u64;
    let mut out = 0u64;
    for &p in parts {
        st ^= p.wrapping_mul(0x9E37_79B9_7F4A_7C15).rotate_left(23);
        out = splitmix64(&mut st) ^ out.rotate_left(17);
    }
    let mut s2 = out ^ st;
    splitmix64(&mut s2)
}

/// FNV-1a over a string, for keying by names/paths
pub fn hash_str(s: &str) -> u64 {
    let mut h = 0xcbf2_9ce4_8422_2325u64;
    for b in s.as_bytes() {
        h ^= *b as u64;
        h = h.wrapping_mul(0x0000_0100_0000_01B3);
    }
    h
}

impl Rng {
    pub fn new(seed: u64) -> Self {
        let mut st = seed;
        let s = [
            splitmix64(&mut st),
            splitmix64(&mut st),
            splitmix64(&mut st),
            splitmix64(&mut st),
        ];
        Rng { s }
    }

    /// Independent sub-stream named by `label`
    pub fn split(seed: u64, label: &str) -> Self {
        Rng::new(mix(&[seed, hash_str(label)]))
    }

    pub fn next_u64(&mut self) -> u64 {
        let result = self.s[1].wrapping_mul(5).rotate_left(7).wrapping_mul(9);
        let t = self.s[1] << 17;
        self.s[2] ^= self.s[0];
        self.s[3] ^= self.s[1];
        self.s[1] ^= self.s[2];
        self.s[0] ^= self.s[3];
        self.s[2] ^= t;
        self.s[3] = self.s[3].rotate_left(45);
        result
    }

    /// Uniform in `0..n` (n > 0)
    pub fn below(&mut self, n: u64) -> u64 {
        debug_assert!(n > 0);
        // multiply-shift; bias is irrelevant for our purposes and the stream stays stable
        ((self.next_u64() as u128 * n as u128) >> 64) as u64
    }

    pub fn range(&mut self, lo: u64, hi_inclusive: u64) -> u64 {
        lo + self.below(hi_inclusive - lo + 1)
    }

    pub fn usize(&mut self, n: usize) -> usize {
        self.below(n as u64) as usize
    }

    /// True with probability num/den
    pub fn chance(&mut self, num: u64, den: u64) -> bool {
        self.below(den) < num
    }

    pub fn pick<'a, T>(&mut self, items: &'a [T]) -> &'a T {
        &items[self.usize(items.len())]
    }

    pub fn shuffle<T>(&mut self, items: &mut [T]) {
        for i in (1..items.len()).rev() {
            let j = self.usize(i + 1);
            items.swap(i, j);
        }
    }
}

/// 128-bit digest (two decorrelated FNV-1a/mix lanes). Not cryptographic; used to compare
/// event logs and to count distinct cases.
#[derive(Clone)]
pub struct Digest {
    a: u64,
    b: u64,
    len: u64,
}

impl Default for Digest {
    fn default() -> Self {
        Self::new()
    }
}

impl Digest {
    pub fn new() -> Self {
        Digest {
            a: 0xcbf2_9ce4_8422_2325,
            b: 0x6c62_272e_07bb_0142,
            len: 0,
        }
    }
    pub fn update(&mut self, bytes: &[u8]) {
        for &x in bytes {
            self.a ^= x as u64;
            self.a = self.a.wrapping_mul(0x0000_0100_0000_01B3);
            self.b = (self.b ^ (x as u64).wrapping_add(0x9E37_79B9))
                .wrapping_mul(0xff51_afd7_ed55_8ccd)
                .rotate_left(29);
        }
        self.len += bytes.len() as u64;
    }
    pub fn update_str(&mut self, s: &str) {
        self.update(s.as_bytes());
        self.update(&[0xff]);
    }
    pub fn update_u64(&mut self, v: u64) {
        self.update(&v.to_le_bytes());
    }
    pub fn finish(&self) -> (u64, u64) {
        let mut s1 = self.a ^ self.len;
        let mut s2 = self.b ^ self.len.rotate_left(32);
        (splitmix64(&mut s1), splitmix64(&mut s2))
    }
    pub fn hex(&self) -> String {
        let (a, b) = self.finish();
        format!("{a:016x}{b:016x}")
    }
    pub fn u64(&self) -> u64 {
        let (a, b) = self.finish();
        a ^ b.rotate_left(1)
    }
}

pub fn digest_str(s: &str) -> String {
    let mut d = Digest::new();
    d.update(s.as_bytes());
    d.hex()
}
