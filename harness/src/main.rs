mod core;
mod exec;
mod gen;
mod pipeline;
mod props;
mod sched;

fn main() {
    std::process::exit(core::batch::main_entry());
}
