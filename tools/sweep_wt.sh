#!/usr/bin/env bash
# Sensitivity sweep without touching /repo: every id given (or every entry of seeded/EXPECTED.tsv and
# mutants/EXPECTED.tsv when none is given) is run against the check and tier the tables name, through
# tools/run_against_wt.sh in scratch slot <slot>. Several slots can run side by side; freeze the harness
# first (rsync -a --exclude target /verif/harness/ /tmp/frozen/harness/; export VERIF_HARNESS_SRC=/tmp/frozen/harness)
# if you keep editing /verif/harness meanwhile. One line per entry: "### <id> <check> <tier> exit=<rc> :: <first violation>";
# exit=1 means caught. `./check selftest sensitivity` is the same table applied to /repo itself.
# usage: sweep_wt.sh <slot> [ids...]
cd /verif || exit 2
slot="${1:-0}"; shift
ids="$*"
[ -n "$ids" ] || ids=$(grep -hv '^#' seeded/EXPECTED.tsv mutants/EXPECTED.tsv | cut -f1 | grep -v '^$')
for id in $ids; do
  line=$(grep -hP "^$id\t" seeded/EXPECTED.tsv mutants/EXPECTED.tsv | head -1)
  prop=$(echo "$line" | cut -f2); tier=$(echo "$line" | cut -f3); units=$(echo "$line" | cut -f4)
  patch=seeded/$id/patch.diff; [ -f "$patch" ] || patch=mutants/$id.patch
  if [ -n "$units" ]; then export VERIF_UNITS=$units; else unset VERIF_UNITS; fi
  out=$(tools/run_against_wt.sh "$patch" "$prop" "$tier" "$slot" 2>&1); rc=$?
  echo "### $id $prop $tier exit=$rc :: $(echo "$out" | grep -m1 'violation class=' | cut -c1-200)"
done
tools/run_against_wt.sh --clean "$slot"
