pub mod batch;
pub mod miri;
pub mod rng;
