//! C27 — async execution does not depend on the schedule.

use crate::core::batch::Property;
use crate::core::batch::RunReport;
use crate::core::batch::Tier;
use crate::core::batch::Violation;
use crate::core::rng::mix;
use crate::core::rng::Rng;
use crate::exec;
use crate::exec::sim::Mode;
use crate::exec::sim::Schedule;
use crate::exec::world;
use crate::exec::Case;
use serde_json::json;
use serde_json::Value as J;

pub struct C27;

const WORLDS_PER_REQUEST: u64 = 3;
const SCHEDULES_PER_WORLD: u64 = 4;

fn check(case: &Case) -> Option<Violation> {
    match exec::parse(case) {
        Err(_) => None,
        Ok(p) => exec::check_c27(case, &p, false).violation,
    }
}

fn report(case: &Case, out: exec::C27Outcome, sample: bool, exhaustive: bool) -> RunReport {
    let mut r = RunReport::default();
    let mut counters: Vec<(String, u64)> = vec![];
    let mut add = |k: &str, v: u64| {
        if v > 0 {
            counters.push((k.to_string(), v))
        }
    };
    add(if exhaustive { "tier.exhaustive_runs" } else { "tier.random_runs" }, 1);
    let mut explicit = case.clone();
    if let Some(a) = &out.asyn {
        let st = &a.stats;
        add("sched.pending_returns", st.pending_returns);
        add("sched.timer_fires", st.timer_fires);
        add("sched.spurious_polls", st.spurious_polls);
        add("sched.late_wakes_after_completion", st.late_wakes);
        add("sched.stale_wakes_ignored", st.stale_wakes);
        add("sched.strict_waker_runs", case.schedule.strict_wakers as u64);
        add("sched.root_polls", st.polls_root);
        add("sched.futures_created", st.futures_created);
        add("sched.streams_created", st.streams_created);
        add("probe.future_dropped_incomplete", st.futures_dropped_incomplete);
        add("probe.stream_dropped_in_flight", st.streams_dropped_incomplete);
        add("probe.stream_pending_between_items", st.stream_pending_between_items);
        add(&format!("hist.pending_polls.{}", bucket(st.pending_returns)), 1);
        let mut faults = 0;
        for (k, v) in &a.world.fired {
            let is_fault = world::FAULT_KINDS.contains(k);
            add(&format!("{}.{k}", if is_fault { "fault" } else { "note" }), *v);
            if is_fault {
                faults += v;
            }
        }
        add("resolver_calls", a.calls.len() as u64);
        if op_is_mutation(case) {
            add("probe.mutation_runs", 1);
        }
        r.virtual_ns = st.virtual_ns;
        r.event_digest = u64::from_str_radix(&a.event_digest[..16], 16).unwrap_or(0);
        r.nontrivial = st.pending_returns > 0 || st.spurious_polls > 0 || faults > 0;
        explicit.schedule = a.schedule.clone();
        explicit.schedule.explicit = true;
        explicit.overrides = a.world.consulted.clone();
        if let Some(s) = &out.sync {
            explicit.overrides.extend(s.world.consulted.clone());
        }
        r.schedule_digest = explicit.schedule.digest();
    } else if let Some(s) = &out.sync {
        explicit.overrides = s.world.consulted.clone();
    }
    r.case_digest = exec::case_digest(case);
    r.counters = counters;
    if let Some(v) = out.violation {
        r.violation = Some((v, explicit.to_json()));
    }
    if sample {
        r.sample = Some(explicit.to_json());
    }
    r
}

fn op_is_mutation(case: &Case) -> bool {
    case.document.trim_start().starts_with("mutation")
}

fn bucket(n: u64) -> &'static str {
    match n {
        0 => "0",
        1..=2 => "1-2",
        3..=5 => "3-5",
        6..=10 => "6-10",
        11..=20 => "11-20",
        _ => "21+",
    }
}

/// the 7 scripts of the exhaustive tier: pending count in {0,1,2}, wake mode in {immediate, delayed}
fn exhaustive_scripts() -> Vec<Vec<Mode>> {
    let modes = [Mode::Immediate, Mode::Delayed(1_500)];
    let mut out = vec![vec![]];
    for a in &modes {
        out.push(vec![a.clone()]);
    }
    for a in &modes {
        for b in &modes {
            out.push(vec![a.clone(), b.clone()]);
        }
    }
    out
}

impl Property for C27 {
    fn id(&self) -> &'static str {
        "C27"
    }
    fn engine(&self) -> &'static str {
        "asyncsim"
    }
    fn level(&self) -> &'static str {
        "exploration"
    }
    fn units(&self, tier: Tier) -> u64 {
        match tier {
            Tier::Quick => 100_000,
            Tier::Thorough => 2_000_000,
        }
    }

    fn run_unit(&self, seed: u64, unit: u64, tier: Tier, sink: &mut dyn FnMut(RunReport)) {
        let run_seed = mix(&[seed, 27, unit]);
        let mut case = exec::gen_case(run_seed, &exec::GenCfg { with_schedule: true });
        let parsed = match exec::parse(&case) {
            Ok(p) => p,
            Err(e) => {
                let reason = e.split(':').next().unwrap_or("invalid").to_string();
                sink(RunReport {
                    discarded: Some(reason),
                    ..Default::default()
                });
                return;
            }
        };
        let mut fr = Rng::split(run_seed, "faults");
        let mut sr = Rng::split(run_seed, "schedule");
        for w in 0..WORLDS_PER_REQUEST {
            case.world_seed = mix(&[run_seed, 0xC0FFEE, w]);
            let (permille, mask) = super::c26::swarm_faults(&mut fr, w);
            case.fault_permille = permille;
            case.fault_mask = mask;
            // swarm: a few runs with long top-level lists (with few faults, or the list is cut short)
            case.list_scale = match fr.below(40) {
                0 => 2,
                1..=2 => 1,
                _ => 0,
            };
            if case.list_scale > 0 {
                case.fault_permille = case.fault_permille.min(5);
            }
            for s in 0..SCHEDULES_PER_WORLD {
                case.schedule = Schedule {
                    seed: sr.next_u64(),
                    max_pending: *sr.pick(&[1, 2, 2, 3, 4]),
                    // swarm: all-ready async runs, sparse and dense pending
                    pending_permille: *sr.pick(&[0, 20, 100, 600, 600, 900]),
                    spurious_permille: *sr.pick(&[0, 0, 50, 200]),
                    strict_wakers: sr.chance(1, 3),
                    ..Default::default()
                };
                let out = exec::check_c27(&case, &parsed, false);
                sink(report(&case, out, unit < 32 && w == 1 && s == 0, false));
            }
        }
        // exhaustive tier: every assignment of the 7 scripts to the futures and stream items of a
        // small request (at most 5 scripted points ⇒ at most 7^5 = 16 807 schedules)
        let every = match tier {
            Tier::Quick => 700,
            Tier::Thorough => 930,
        };
        if unit % every == 0 {
            case.world_seed = mix(&[run_seed, 0xC0FFEE, 1]);
            case.list_scale = 0;
            let (permille, mask) = (150, exec::ALL_FAULTS);
            case.fault_permille = permille;
            case.fault_mask = mask;
            // discover the scripted points with an all-ready schedule
            case.schedule = Schedule {
                explicit: true,
                ..Default::default()
            };
            let probe = exec::check_c27(&case, &parsed, false);
            let Some(a) = &probe.asyn else { return };
            let mut points: Vec<(bool, u32, u32)> = vec![];
            for id in a.schedule.futures.keys() {
                points.push((false, *id, 0));
            }
            for (id, item) in a.schedule.streams.keys() {
                points.push((true, *id, *item));
            }
            if points.is_empty() || points.len() > 5 {
                sink(report(&case, probe, false, true));
                return;
            }
            let scripts = exhaustive_scripts();
            let total = (scripts.len() as u64).pow(points.len() as u32);
            let mut complete = true;
            for n in 0..total {
                let mut sched = Schedule {
                    explicit: true,
                    ..Default::default()
                };
                let mut k = n;
                for (is_stream, id, item) in &points {
                    let sc = scripts[(k % scripts.len() as u64) as usize].clone();
                    k /= scripts.len() as u64;
                    if *is_stream {
                        sched.streams.insert((*id, *item), sc);
                    } else {
                        sched.futures.insert(*id, sc);
                    }
                }
                case.schedule = sched;
                let out = exec::check_c27(&case, &parsed, false);
                // the set of scripted points must not depend on the schedule
                if let Some(a2) = &out.asyn {
                    let n_points = a2.schedule.futures.len() + a2.schedule.streams.len();
                    if n_points != points.len() && out.violation.is_none() {
                        complete = false;
                    }
                }
                sink(report(&case, out, false, true));
            }
            let mut r = RunReport::default();
            r.discarded = None;
            r.counters = vec![
                ("exhaustive.requests".into(), 1),
                ("exhaustive.schedules".into(), total),
                (
                    if complete { "exhaustive.complete_requests" } else { "exhaustive.incomplete_requests" }.into(),
                    1,
                ),
            ];
            r.case_digest = exec::case_digest(&case) ^ 0xE;
            sink(r);
        }
    }

    fn replay(&self, case: &J) -> Result<Option<Violation>, String> {
        let case = Case::from_json(case)?;
        let p = exec::parse(&case).map_err(|e| format!("replay case does not validate: {e}"))?;
        Ok(exec::check_c27(&case, &p, false).violation)
    }

    fn minimise(&self, case: &J, class: &str) -> (J, u64) {
        let Ok(case) = Case::from_json(case) else {
            return (case.clone(), 0);
        };
        let mut start = case.clone();
        let mut c0 = case.clone();
        c0.fault_permille = 0;
        if check(&c0).map(|v| v.class).as_deref() == Some(class) {
            start = c0;
        }
        let (mut min, steps) = super::execmin::minimise(&start, class, &|c| check(c).map(|v| v.class));
        // keep only the world outcomes the minimised case still consults
        if let Ok(p) = exec::parse(&min) {
            let out = exec::check_c27(&min, &p, false);
            let mut consulted = std::collections::BTreeSet::new();
            for r in [&out.sync, &out.asyn].into_iter().flatten() {
                consulted.extend(r.world.consulted.keys().cloned());
            }
            let mut pruned = min.clone();
            pruned.overrides.retain(|k, _| consulted.contains(k));
            if check(&pruned).map(|v| v.class).as_deref() == Some(class) {
                min = pruned;
            }
        }
        (min.to_json(), steps + 1)
    }

    fn signature(&self, v: &Violation, _case: &J) -> String {
        super::c26::signature(v)
    }

    fn rule(&self) -> String {
        "unit = one seeded valid request x 3 resolver worlds (world 0 fault-free) x 4 seeded readiness \
         schedules (per resolver future and per stream item: 0-4 Pending returns, each woken \
         immediately, by a virtual timer, or twice; executor-side spurious polls), run under the \
         single-task discrete-event executor and compared with execute_sync on the same world. \
         Every 700th (quick) / 930th (thorough) unit additionally enumerates ALL assignments of 7 scripts (pending count \
         0-2 x wake mode immediate/delayed) to the scripted points of a request with at most 5 such \
         points; complete only inside that bound. Non-trivial = at least one Pending return, \
         spurious poll or injected fault; distinct = distinct (request+world digest, explicit schedule digest) pairs."
            .into()
    }

    fn assumptions(&self) -> Vec<String> {
        vec![
            "oracle is the code's own execute_sync run on the same world; a defect present identically in both paths is C26's business".into(),
            "sim futures follow the Future contract (wake the most recent waker); wakers may be called late or twice".into(),
            "single task: execute_async spawns nothing, so one simulator-owned waker observes every wake-up".into(),
        ]
    }

    fn real_vs_stub(&self) -> J {
        json!({
            "real": ["apollo-compiler resolvers::Execution::{execute_async, execute_sync} and everything below them", "futures-util combinators used by the executor"],
            "stub": ["executor, waker, virtual clock and timers (simulator)", "resolver futures and list streams (scripted)", "resolver world"],
        })
    }
}
