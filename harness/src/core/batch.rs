//! Batch driver: one integer (`VERIF_SEED`) decides everything; worker *processes* each run
//! their stripe of work units strictly one simulation after another; results are merged,
//! violations are matched against the committed known-findings file, minimised, replayed in a
//! fresh process and reported; the evidence file is rewritten on every run.

use crate::core::rng::Digest;
use serde_json::json;
use serde_json::Value as J;
use std::collections::BTreeMap;
use std::collections::BTreeSet;
use std::io::Write as _;
use std::path::PathBuf;
use std::process::Command;
use std::process::Stdio;
use std::time::Instant;

#[derive(Clone, Copy, PartialEq, Eq, Debug)]
pub enum Tier {
    Quick,
    Thorough,
}

impl Tier {
    pub fn name(self) -> &'static str {
        match self {
            Tier::Quick => "quick",
            Tier::Thorough => "thorough",
        }
    }
}

#[derive(Clone, Debug)]
pub struct Violation {
    pub class: String,
    pub detail: String,
}

#[derive(Default)]
pub struct RunReport {
    pub discarded: Option<String>,
    /// violation plus the explicit case (replayable as is)
    pub violation: Option<(Violation, J)>,
    pub case_digest: u64,
    pub schedule_digest: u64,
    pub nontrivial: bool,
    pub counters: Vec<(String, u64)>,
    pub event_digest: u64,
    pub virtual_ns: u64,
    pub sample: Option<J>,
}

pub trait Property {
    fn id(&self) -> &'static str;
    fn engine(&self) -> &'static str;
    fn level(&self) -> &'static str;
    /// number of work units for this tier
    fn units(&self, tier: Tier) -> u64;
    /// run one work unit (which may consist of several simulated runs)
    fn run_unit(&self, verif_seed: u64, unit: u64, tier: Tier, sink: &mut dyn FnMut(RunReport));
    /// replay an explicit case: the violation it exhibits, if any
    fn replay(&self, case: &J) -> Result<Option<Violation>, String>;
    /// shrink an explicit failing case while the same violation class persists
    fn minimise(&self, case: &J, class: &str) -> (J, u64);
    /// signature used to match a violation against known findings (specific input / call site / history)
    fn signature(&self, v: &Violation, case: &J) -> String;
    fn rule(&self) -> String;
    fn assumptions(&self) -> Vec<String>;
    fn real_vs_stub(&self) -> J;
    /// extra steps run by the driver after the batch (e.g. Miri tier); returns extra evidence
    /// and violations found
    fn post_batch(&self, _verif_seed: u64, _tier: Tier) -> Result<(J, Vec<(Violation, J)>), String> {
        Ok((J::Null, vec![]))
    }
    /// whether a process may run more than one unit (false ⇒ one fresh process per unit)
    fn units_share_process(&self, _unit: u64, _tier: Tier) -> bool {
        true
    }
}

pub fn verif_root() -> PathBuf {
    if let Ok(p) = std::env::var("VERIF_ROOT") {
        return PathBuf::from(p);
    }
    // the binary lives in <root>/harness/target/release/
    let exe = std::env::current_exe().expect("current_exe");
    exe.ancestors()
        .nth(4)
        .map(|p| p.to_path_buf())
        .unwrap_or_else(|| PathBuf::from("/verif"))
}

fn hex_list(v: &BTreeSet<u64>) -> String {
    let mut s = String::with_capacity(v.len() * 17);
    for x in v {
        s.push_str(&format!("{x:016x}"));
    }
    s
}

fn parse_hex_list(s: &str, into: &mut BTreeSet<u64>) {
    let b = s.as_bytes();
    let mut i = 0;
    while i + 16 <= b.len() {
        if let Ok(x) = u64::from_str_radix(&s[i..i + 16], 16) {
            into.insert(x);
        }
        i += 16;
    }
}

#[derive(Default)]
struct Merged {
    runs: u64,
    discarded: u64,
    discard_reasons: BTreeMap<String, u64>,
    counters: BTreeMap<String, u64>,
    /// some worker hit DISTINCT_CAP: the distinct counts are lower bounds
    distinct_capped: bool,
    case_digests: BTreeSet<u64>,
    sched_digests: BTreeSet<u64>,
    nontrivial_pairs: BTreeSet<u64>,
    violations: Vec<(u64, Violation, J)>,
    samples: Vec<J>,
    virtual_ns: u128,
    /// digest over (unit, event digest) pairs in unit order: the determinism witness
    log_digest: Vec<(u64, u64)>,
    crashes: Vec<(u64, String)>,
}

static UNIT_STARTED: std::sync::atomic::AtomicU64 = std::sync::atomic::AtomicU64::new(0);

fn now_ms() -> u64 {
    // wall clock of the harness only (watchdog); never visible to a simulation
    std::time::SystemTime::now()
        .duration_since(std::time::UNIX_EPOCH)
        .map(|d| d.as_millis() as u64)
        .unwrap_or(0)
}

/// CPU time (user + system, all threads) this process has consumed so far, in milliseconds;
/// harness-only, never visible to a simulation. 100 clock ticks per second on Linux.
fn cpu_ms() -> u64 {
    let Ok(stat) = std::fs::read_to_string("/proc/self/stat") else { return 0 };
    let Some(rest) = stat.rfind(')').map(|i| &stat[i + 1..]) else { return 0 };
    let f: Vec<&str> = rest.split_whitespace().collect();
    // after the command name: state is f[0], utime is the 14th field of the line = f[11], stime f[12]
    let t = |i: usize| f.get(i).and_then(|v| v.parse::<u64>().ok()).unwrap_or(0);
    (t(11) + t(12)) * 10
}

/// per worker and per set (cases, schedules, non-trivial pairs)
const DISTINCT_CAP: usize = 1_500_000;

static UNIT_STARTED_CPU: std::sync::atomic::AtomicU64 = std::sync::atomic::AtomicU64::new(0);

/// Watchdog of the harness itself: a unit that *computes* for longer than the limit (CPU time of
/// this process, so a loaded machine does not trip it) or makes no progress for 15 times the limit
/// of wall-clock time (blocked: costs nothing to wait for) makes the process abort, which the
/// driver reports as a crash (hang) of that unit.
fn start_watchdog(limit_s: u64) {
    std::thread::spawn(move || loop {
        std::thread::sleep(std::time::Duration::from_millis(500));
        let started = UNIT_STARTED.load(std::sync::atomic::Ordering::SeqCst);
        if started == 0 {
            continue;
        }
        let cpu = cpu_ms().saturating_sub(UNIT_STARTED_CPU.load(std::sync::atomic::Ordering::SeqCst));
        let wall = now_ms().saturating_sub(started);
        if cpu > limit_s * 1000 || wall > limit_s * 15_000 {
            eprintln!("watchdog: unit exceeded {limit_s}s of CPU time ({cpu} ms) or {}s of wall-clock time ({wall} ms), aborting the worker", limit_s * 15);
            std::process::abort();
        }
    });
}

/// Worker: runs units [from, to) with stride and prints one JSON document
fn worker(prop: &dyn Property, seed: u64, tier: Tier, from: u64, to: u64, stride: u64) -> J {
    let mut m = Merged::default();
    let mut unit = from;
    while unit < to {
        // progress marker: if this process dies (stack overflow, abort) the driver knows where
        println!("UNIT {unit}");
        UNIT_STARTED_CPU.store(cpu_ms(), std::sync::atomic::Ordering::SeqCst);
        UNIT_STARTED.store(now_ms(), std::sync::atomic::Ordering::SeqCst);
        let mut unit_log = Digest::new();
        let mut sink = |r: RunReport| {
            if let Some(reason) = r.discarded {
                m.discarded += 1;
                *m.discard_reasons.entry(reason).or_default() += 1;
                return;
            }
            m.runs += 1;
            for (k, v) in r.counters {
                *m.counters.entry(k).or_default() += v;
            }
            // distinctness is counted exactly up to DISTINCT_CAP entries per worker and set; beyond
            // that (thorough tiers only) the reported figures are lower bounds, flagged in the evidence
            if m.case_digests.len() < DISTINCT_CAP {
                m.case_digests.insert(r.case_digest);
            }
            if m.sched_digests.len() < DISTINCT_CAP {
                m.sched_digests.insert(r.schedule_digest);
            }
            if r.nontrivial && m.nontrivial_pairs.len() < DISTINCT_CAP {
                m.nontrivial_pairs
                    .insert(r.case_digest ^ r.schedule_digest.rotate_left(21));
            }
            m.virtual_ns += r.virtual_ns as u128;
            unit_log.update_u64(r.event_digest);
            if let Some((v, case)) = r.violation {
                if m.violations.len() < 50 {
                    m.violations.push((unit, v, case));
                }
            }
            if let Some(s) = r.sample {
                if m.samples.len() < 2 {
                    m.samples.push(s);
                }
            }
        };
        let r = std::panic::catch_unwind(std::panic::AssertUnwindSafe(|| {
            prop.run_unit(seed, unit, tier, &mut sink)
        }));
        if r.is_err() {
            // a panic that escaped the per-run handling: report it against this unit
            m.violations.push((
                unit,
                Violation {
                    class: "panic".into(),
                    detail: format!("uncaught panic while running unit {unit}: {}", crate::exec::take_last_panic()),
                },
                json!({"rerun_unit": unit, "verif_seed": seed, "tier": tier.name()}),
            ));
        }
        m.log_digest.push((unit, unit_log.u64()));
        unit += stride;
    }
    // no unit is running any more: serialising a large result must not look like a hung unit
    UNIT_STARTED.store(0, std::sync::atomic::Ordering::SeqCst);
    json!({
        "distinct_capped": m.case_digests.len() >= DISTINCT_CAP || m.sched_digests.len() >= DISTINCT_CAP || m.nontrivial_pairs.len() >= DISTINCT_CAP,
        "runs": m.runs,
        "discarded": m.discarded,
        "discard_reasons": m.discard_reasons,
        "counters": m.counters,
        "case_digests": hex_list(&m.case_digests),
        "sched_digests": hex_list(&m.sched_digests),
        "nontrivial_pairs": hex_list(&m.nontrivial_pairs),
        "violations": m.violations.iter().map(|(u, v, c)| json!({"unit": u, "class": v.class, "detail": v.detail, "case": c})).collect::<Vec<_>>(),
        "samples": m.samples,
        "virtual_ns": m.virtual_ns.to_string(),
        "log": m.log_digest.iter().map(|(u, d)| json!([u, format!("{d:016x}")])).collect::<Vec<_>>(),
    })
}

fn merge(into: &mut Merged, w: &J) {
    if let Some(c) = w.get("crash") {
        into.crashes.push((c["unit"].as_u64().unwrap_or(0), c["status"].as_str().unwrap_or("").to_string()));
        return;
    }
    into.runs += w["runs"].as_u64().unwrap_or(0);
    into.distinct_capped |= w["distinct_capped"].as_bool().unwrap_or(false);
    into.discarded += w["discarded"].as_u64().unwrap_or(0);
    if let Some(m) = w["discard_reasons"].as_object() {
        for (k, v) in m {
            *into.discard_reasons.entry(k.clone()).or_default() += v.as_u64().unwrap_or(0);
        }
    }
    if let Some(m) = w["counters"].as_object() {
        for (k, v) in m {
            *into.counters.entry(k.clone()).or_default() += v.as_u64().unwrap_or(0);
        }
    }
    parse_hex_list(w["case_digests"].as_str().unwrap_or(""), &mut into.case_digests);
    parse_hex_list(w["sched_digests"].as_str().unwrap_or(""), &mut into.sched_digests);
    parse_hex_list(
        w["nontrivial_pairs"].as_str().unwrap_or(""),
        &mut into.nontrivial_pairs,
    );
    for v in w["violations"].as_array().into_iter().flatten() {
        into.violations.push((
            v["unit"].as_u64().unwrap_or(0),
            Violation {
                class: v["class"].as_str().unwrap_or("").to_string(),
                detail: v["detail"].as_str().unwrap_or("").to_string(),
            },
            v["case"].clone(),
        ));
    }
    for s in w["samples"].as_array().into_iter().flatten() {
        if into.samples.len() < 3 {
            into.samples.push(s.clone());
        }
    }
    into.virtual_ns += w["virtual_ns"]
        .as_str()
        .and_then(|s| s.parse::<u128>().ok())
        .unwrap_or(0);
    for e in w["log"].as_array().into_iter().flatten() {
        let u = e[0].as_u64().unwrap_or(0);
        let d = u64::from_str_radix(e[1].as_str().unwrap_or("0"), 16).unwrap_or(0);
        into.log_digest.push((u, d));
    }
}

struct Known {
    property: String,
    signature: String,
    what: String,
    status: String,
}

fn load_known(root: &std::path::Path) -> Result<Vec<Known>, String> {
    let p = root.join("known_findings.json");
    let Ok(text) = std::fs::read_to_string(&p) else {
        return Ok(vec![]);
    };
    let j: J = serde_json::from_str(&text).map_err(|e| format!("known_findings.json: {e}"))?;
    let mut out = vec![];
    for f in j["findings"].as_array().into_iter().flatten() {
        out.push(Known {
            property: f["property"].as_str().unwrap_or("").to_string(),
            signature: f["signature"].as_str().unwrap_or("").to_string(),
            what: f["what"].as_str().unwrap_or("").to_string(),
            status: f["status"].as_str().unwrap_or("open").to_string(),
        });
    }
    Ok(out)
}

fn spawn_workers(
    prop_id: &str,
    seed: u64,
    tier: Tier,
    units: u64,
    workers: u64,
    extra_env: &[(String, String)],
) -> Result<Vec<J>, String> {
    let exe = std::env::current_exe().map_err(|e| e.to_string())?;
    let mut children = vec![];
    for w in 0..workers {
        let mut cmd = Command::new(&exe);
        cmd.arg("worker")
            .arg(prop_id)
            .arg(tier.name())
            .arg(seed.to_string())
            .arg(w.to_string())
            .arg(units.to_string())
            .arg(workers.to_string())
            .stdin(Stdio::null())
            .stdout(Stdio::piped())
            .stderr(Stdio::inherit());
        for (k, v) in extra_env {
            cmd.env(k, v);
        }
        let child = cmd.spawn().map_err(|e| format!("spawn worker: {e}"))?;
        children.push(child);
    }
    // drain every child's pipe concurrently: a worker blocked on a full stdout pipe would look
    // like a hung unit to its watchdog
    let readers: Vec<_> = children
        .into_iter()
        .map(|child| std::thread::spawn(move || child.wait_with_output()))
        .collect();
    let mut outs = vec![];
    for reader in readers {
        let out = reader
            .join()
            .map_err(|_| "reader thread panicked".to_string())?
            .map_err(|e| format!("wait worker: {e}"))?;
        let text = String::from_utf8_lossy(&out.stdout);
        if !out.status.success() {
            // the process under test died: report it as a crash of the unit it was running
            let last_unit = text
                .lines()
                .rev()
                .find_map(|l| l.strip_prefix("UNIT ").and_then(|n| n.trim().parse::<u64>().ok()));
            match last_unit {
                Some(unit) => {
                    outs.push(json!({"crash": {"unit": unit, "status": format!("{:?}", out.status)}}));
                    continue;
                }
                None => {
                    return Err(format!("worker exited with {:?} before starting any unit", out.status));
                }
            }
        }
        let line = text.lines().last().unwrap_or("");
        let j: J = serde_json::from_str(line).map_err(|e| format!("worker output: {e}: {line:.200}"))?;
        outs.push(j);
    }
    Ok(outs)
}

fn env_u64(name: &str, default: u64) -> u64 {
    std::env::var(name)
        .ok()
        .and_then(|s| s.parse().ok())
        .unwrap_or(default)
}

pub fn run_batch(prop: &dyn Property, tier: Tier) -> i32 {
    let started = Instant::now();
    let seed = env_u64("VERIF_SEED", 1);
    let root = verif_root();
    println!("VERIF_SEED={seed} property={} tier={} engine={}", prop.id(), tier.name(), prop.engine());
    let workers = env_u64("VERIF_WORKERS", 16).max(1);
    let units = match std::env::var("VERIF_UNITS").ok().and_then(|s| s.parse().ok()) {
        Some(u) => u,
        None => prop.units(tier),
    };
    let known = match load_known(&root) {
        Ok(k) => k,
        Err(e) => {
            eprintln!("harness error: {e}");
            return 2;
        }
    };
    let outs = match spawn_workers(prop.id(), seed, tier, units, workers, &[]) {
        Ok(o) => o,
        Err(e) => {
            eprintln!("harness error: {e}");
            return 2;
        }
    };
    let mut m = Merged::default();
    for o in &outs {
        merge(&mut m, o);
    }
    for (unit, status) in std::mem::take(&mut m.crashes) {
        m.violations.push((
            unit,
            Violation {
                class: "process_crash".into(),
                detail: format!("the worker process died ({status}) while running unit {unit}"),
            },
            json!({"rerun_unit": unit, "verif_seed": seed, "tier": tier.name()}),
        ));
    }
    m.violations.sort_by_key(|(u, _, _)| *u);
    m.log_digest.sort();
    let mut batch_log = Digest::new();
    for (u, d) in &m.log_digest {
        batch_log.update_u64(*u);
        batch_log.update_u64(*d);
    }

    // extra tiers (e.g. Miri)
    let (post_evidence, post_violations) = match prop.post_batch(seed, tier) {
        Ok(x) => x,
        Err(e) => {
            eprintln!("harness error: {e}");
            return 2;
        }
    };
    for (v, c) in post_violations {
        m.violations.push((u64::MAX, v, c));
    }

    // classify violations
    let mut known_hits: BTreeMap<usize, u64> = BTreeMap::new();
    let mut fresh: Vec<(u64, Violation, J, String)> = vec![];
    for (unit, v, case) in &m.violations {
        let sig = prop.signature(v, case);
        if let Some(i) = known
            .iter()
            .position(|k| k.property == prop.id() && k.status != "fixed" && k.signature == sig)
        {
            *known_hits.entry(i).or_default() += 1;
        } else {
            fresh.push((*unit, v.clone(), case.clone(), sig));
        }
    }
    for (i, n) in &known_hits {
        println!(
            "KNOWN-FINDING: property={} {} [signature={}; seen in {n} runs]",
            prop.id(),
            known[*i].what,
            known[*i].signature
        );
    }

    let mut exit = 0;
    let mut unreproduced = 0u32;
    let mut reported = vec![];
    // report at most 3 distinct signatures
    let mut seen_sig = BTreeSet::new();
    for (unit, v, case, sig) in fresh {
        if !seen_sig.insert(sig.clone()) || seen_sig.len() > 3 {
            continue;
        }
        let (min_case, steps) = if unit == u64::MAX || case.get("rerun_unit").is_some() {
            (case.clone(), 0)
        } else {
            prop.minimise(&case, &v.class)
        };
        // re-derive the detail from the minimised case
        let detail = if case.get("rerun_unit").is_some() {
            v.detail.clone()
        } else {
            match prop.replay(&min_case) {
                Ok(Some(v2)) if v2.class == v.class => v2.detail,
                _ => v.detail.clone(),
            }
        };
        let replay_dir = std::env::var("VERIF_REPLAY_DIR").map(PathBuf::from).unwrap_or_else(|_| root.join("replays"));
        let path = replay_dir.join(format!(
            "{}-seed{}-unit{}-{}.json",
            prop.id(),
            seed,
            if unit == u64::MAX { "post".to_string() } else { unit.to_string() },
            v.class
        ));
        let _ = std::fs::create_dir_all(&replay_dir);
        // Candidates, most useful first: the minimised case, the case as found, and — for a
        // violation that depends on what the worker process did before (state the case does not
        // capture) — the whole unit re-run in a child process. The first one that fails the same
        // way in a FRESH process becomes the replay file; if none does, that is a harness error.
        let mut candidates: Vec<(J, bool, &str)> = vec![(min_case.clone(), steps > 0, "minimised")];
        if unit != u64::MAX && case.get("rerun_unit").is_none() {
            if min_case != case {
                candidates.push((case.clone(), false, "as found"));
            }
            candidates.push((
                json!({"rerun_unit": unit, "verif_seed": seed, "tier": tier.name()}),
                false,
                "whole unit re-run",
            ));
        }
        let mut reproduced = false;
        for (cand, minimised, what) in &candidates {
            let replay = json!({
                "property": prop.id(),
                "engine": prop.engine(),
                "verif_seed": seed,
                "unit": if unit == u64::MAX { J::Null } else { json!(unit) },
                "case": cand,
                "violation": {"class": v.class, "detail": detail, "signature": sig},
                "minimised": minimised,
                "minimise_steps": steps,
                "replay_form": what,
                "unminimised_case": case,
            });
            if let Err(e) = std::fs::write(&path, serde_json::to_string_pretty(&replay).unwrap()) {
                eprintln!("harness error: cannot write replay file: {e}");
                return 2;
            }
            // replay in a fresh process; it must fail the same way
            if unit == u64::MAX {
                reproduced = true;
                break;
            }
            let exe = std::env::current_exe().unwrap();
            let st = Command::new(exe).arg("replay").arg(&path).stdout(Stdio::null()).status();
            match st {
                Ok(s) if s.code() == Some(1) => {
                    reproduced = true;
                    break;
                }
                other => {
                    eprintln!(
                        "note: replay of {} ({what}) in a fresh process did not reproduce ({other:?})",
                        path.display()
                    );
                }
            }
        }
        if !reproduced {
            let _ = std::fs::remove_file(&path);
            if exit == 1 {
                // another violation of this batch has been reported with a replay file that does
                // reproduce; this one depends on something the case does not capture and is dropped
                eprintln!(
                    "note: a further violation (class {}) does not reproduce in a fresh process in any form; not reported",
                    v.class
                );
                continue;
            }
            unreproduced += 1;
            continue;
        }
        println!("violation class={} detail={}", v.class, detail);
        println!("VIOLATION property={} replay={}", prop.id(), path.display());
        reported.push(json!({"class": v.class, "detail": detail, "replay": path.display().to_string()}));
        exit = 1;
    }

    if exit == 0 && unreproduced > 0 {
        eprintln!(
            "harness error: {unreproduced} violation(s) seen in the batch, none of which reproduces in a fresh process in any form (minimised, as found, whole unit)"
        );
        return 2;
    }

    // evidence
    let wall = started.elapsed().as_secs_f64();
    let runs_per_hour = if wall > 0.0 { m.runs as f64 / wall * 3600.0 } else { 0.0 };
    let mut coverage = json!({
        "evaluations": m.runs,
        "distinct_nontrivial": m.nontrivial_pairs.len(),
        "rule": prop.rule(),
        "samples": m.samples,
        "generated_but_discarded": m.discarded,
        "discard_reasons": m.discard_reasons,
        "distinct_cases": m.case_digests.len(),
        "distinct_schedules": m.sched_digests.len(),
        "distinct_counts_are_lower_bounds": m.distinct_capped,
        "work_units": units,
        "workers": workers,
        "simulated_runs_per_hour": runs_per_hour.round(),
        "seeds_per_hour": (units as f64 / wall.max(1e-9) * 3600.0).round(),
        "virtual_time_covered_s": (m.virtual_ns as f64) / 1e9,
        "fired_and_probe_counters": m.counters,
        "batch_event_log_digest": batch_log.hex(),
        "known_finding_hits": known_hits.iter().map(|(i, n)| json!({"signature": known[*i].signature, "runs": n})).collect::<Vec<_>>(),
        "violations_reported": reported,
        "real_vs_stub": prop.real_vs_stub(),
        "exhaustive": false,
    });
    if !post_evidence.is_null() {
        coverage["post_batch"] = post_evidence;
    }
    let evidence = json!({
        "property_id": prop.id(),
        "tier": tier.name(),
        "seed": seed,
        "level": prop.level(),
        "coverage": coverage,
        "assumptions": prop.assumptions(),
        "wall_s": wall,
        "violations": if exit == 0 { 0 } else { seen_sig.len() },
    });
    // seeded-change runs (tools/run_against.sh) must not overwrite the evidence of the real tree
    let ev_dir = std::env::var("VERIF_EVIDENCE_DIR").map(PathBuf::from).unwrap_or_else(|_| root.join("evidence"));
    let ev_path = ev_dir.join(format!("{}.json", prop.id()));
    let _ = std::fs::create_dir_all(&ev_dir);
    if let Err(e) = std::fs::write(&ev_path, serde_json::to_string_pretty(&evidence).unwrap()) {
        eprintln!("harness error: cannot write evidence: {e}");
        return 2;
    }
    println!(
        "{} {}: {} runs ({} discarded), {} distinct non-trivial, {:.1}s, log digest {}",
        prop.id(),
        tier.name(),
        m.runs,
        m.discarded,
        m.nontrivial_pairs.len(),
        wall,
        batch_log.hex()
    );
    let _ = std::io::stdout().flush();
    exit
}

/// Replay of a crash: run that single unit again in a child process
fn rerun_unit(prop_id: &str, case: &J, unit: u64) -> Result<Option<Violation>, String> {
    let exe = std::env::current_exe().map_err(|e| e.to_string())?;
    let seed = case["verif_seed"].as_u64().unwrap_or(1);
    let tier = case["tier"].as_str().unwrap_or("quick");
    let out = Command::new(exe)
        .arg("worker")
        .arg(prop_id)
        .arg(tier)
        .arg(seed.to_string())
        .arg(unit.to_string())
        .arg((unit + 1).to_string())
        .arg("1")
        .stdin(Stdio::null())
        .stdout(Stdio::piped())
        .stderr(Stdio::null())
        .output()
        .map_err(|e| e.to_string())?;
    if out.status.success() {
        let text = String::from_utf8_lossy(&out.stdout);
        let j: J = serde_json::from_str(text.lines().last().unwrap_or("")).map_err(|e| e.to_string())?;
        Ok(j["violations"].as_array().and_then(|a| a.first()).map(|v| Violation {
            class: v["class"].as_str().unwrap_or("").to_string(),
            detail: v["detail"].as_str().unwrap_or("").to_string(),
        }))
    } else {
        Ok(Some(Violation {
            class: "process_crash".into(),
            detail: format!("the worker process died ({:?}) while running unit {unit}", out.status),
        }))
    }
}

pub fn main_entry() -> i32 {
    let args: Vec<String> = std::env::args().collect();
    crate::exec::install_quiet_panic_hook();
    match args.get(1).map(|s| s.as_str()) {
        Some("run") => {
            let Some(prop) = args.get(2).and_then(|id| crate::props::lookup(id)) else {
                eprintln!("usage: verif-sim run <property> <quick|thorough>");
                return 2;
            };
            let tier = match args.get(3).map(|s| s.as_str()) {
                Some("thorough") => Tier::Thorough,
                _ => Tier::Quick,
            };
            run_batch(prop.as_ref(), tier)
        }
        Some("worker") => {
            // worker <prop> <tier> <seed> <index> <units> <workers>
            let prop = crate::props::lookup(&args[2]).expect("property");
            let tier = if args[3] == "thorough" { Tier::Thorough } else { Tier::Quick };
            let seed: u64 = args[4].parse().unwrap();
            let index: u64 = args[5].parse().unwrap();
            let units: u64 = args[6].parse().unwrap();
            let workers: u64 = args[7].parse().unwrap();
            let id = args[2].clone();
            start_watchdog(env_u64("VERIF_UNIT_TIMEOUT_S", 40));
            let h = std::thread::Builder::new()
                .name("worker".into())
                .stack_size(64 << 20)
                .spawn(move || {
                    let prop = crate::props::lookup(&id).expect("property");
                    worker(prop.as_ref(), seed, tier, index, units, workers)
                })
                .expect("spawn worker thread");
            let _ = prop;
            match h.join() {
                Ok(out) => {
                    println!("{out}");
                    0
                }
                Err(_) => 3,
            }
        }
        Some("replay") => {
            let Some(path) = args.get(2) else {
                eprintln!("usage: verif-sim replay <file>");
                return 2;
            };
            let text = match std::fs::read_to_string(path) {
                Ok(t) => t,
                Err(e) => {
                    eprintln!("harness error: {e}");
                    return 2;
                }
            };
            let j: J = match serde_json::from_str(&text) {
                Ok(j) => j,
                Err(e) => {
                    eprintln!("harness error: {e}");
                    return 2;
                }
            };
            let Some(prop) = j["property"].as_str().and_then(crate::props::lookup) else {
                eprintln!("harness error: unknown property in replay file");
                return 2;
            };
            let want = j["violation"]["class"].as_str().unwrap_or("");
            let result = if let Some(unit) = j["case"]["rerun_unit"].as_u64() {
                rerun_unit(prop.id(), &j["case"], unit)
            } else {
                prop.replay(&j["case"])
            };
            match result {
                Ok(Some(v)) => {
                    println!("replay: violation class={} detail={}", v.class, v.detail);
                    if v.class == want || want.is_empty() {
                        println!("VIOLATION property={} replay={}", prop.id(), path);
                        1
                    } else {
                        println!("replay: a different violation class than recorded ({want})");
                        1
                    }
                }
                Ok(None) => {
                    println!("replay: no violation");
                    0
                }
                Err(e) => {
                    eprintln!("harness error: {e}");
                    2
                }
            }
        }
        Some("gen") => {
            // debugging aid: print generated requests
            let seed: u64 = args.get(2).and_then(|s| s.parse().ok()).unwrap_or(1);
            let n: u64 = args.get(3).and_then(|s| s.parse().ok()).unwrap_or(1);
            for i in 0..n {
                let case = crate::exec::gen_case(
                    crate::core::rng::mix(&[seed, i]),
                    &crate::exec::GenCfg { with_schedule: true },
                );
                println!("---- {i}\n{}\n--\n{}\nvars {}", case.schema, case.document, case.variables);
                match crate::exec::parse(&case) {
                    Ok(_) => println!("VALID"),
                    Err(e) => println!("INVALID {e}"),
                }
            }
            0
        }
        Some("c31-case") => crate::props::c31::child_main(),
        Some("c22-digests") => crate::props::c22::digests_main(&args[2..]),
        Some("c22-one") => crate::props::c22::one_main(),
        Some("selftest") => crate::props::selftest(&args[2..]),
        _ => {
            eprintln!("usage: verif-sim run|worker|replay|selftest …");
            2
        }
    }
}
