//! C30 — names and nodes are memory-safe shared values.
//! Operation histories on names/nodes across seeded thread schedules, with a reference model,
//! an instrumented allocator (leak / double free / poisoned quarantine), plus a Miri tier.

use crate::c30ops::gen_op;
use crate::c30ops::Op;
use crate::c30ops::Pool;
use crate::c30ops::LIVE_PAYLOADS;
use crate::core::batch::Property;
use crate::core::batch::RunReport;
use crate::core::batch::Tier;
use crate::core::batch::Violation;
use crate::core::rng::mix;
use crate::core::rng::Digest;
use crate::core::rng::Rng;
use crate::sched;
use crate::sched::Strategy;
use crate::simalloc;
use serde_json::json;
use serde_json::Value as J;
use std::collections::BTreeMap;
use std::sync::Arc;
use std::sync::Mutex;

pub struct C30;

#[derive(Clone, Debug)]
pub struct Case {
    pub threads: Vec<Vec<Op>>,
    pub strategy: Strategy,
    pub sched_seed: u64,
    pub switches: Vec<(u64, usize)>,
}

fn strategy_to_s(s: &Strategy) -> String {
    match s {
        Strategy::Random => "random".into(),
        Strategy::Sticky(p) => format!("sticky:{p}"),
        Strategy::Pct(d) => format!("pct:{d}"),
        Strategy::Replay => "replay".into(),
    }
}

fn strategy_from_s(s: &str) -> Strategy {
    if s == "random" {
        Strategy::Random
    } else if let Some(p) = s.strip_prefix("sticky:") {
        Strategy::Sticky(p.parse().unwrap_or(100))
    } else if let Some(d) = s.strip_prefix("pct:") {
        Strategy::Pct(d.parse().unwrap_or(1))
    } else {
        Strategy::Replay
    }
}

impl Case {
    pub fn to_json(&self) -> J {
        json!({
            "strategy": strategy_to_s(&self.strategy),
            "sched_seed": self.sched_seed.to_string(),
            "schedule": self.switches.iter().map(|(s, t)| json!([s, t])).collect::<Vec<_>>(),
            "threads": self.threads.iter().map(|t| t.iter().map(|o| o.encode()).collect::<Vec<_>>()).collect::<Vec<_>>(),
            "legend": "ops: nh/ns/fa = new heap/static/from-arc name (slot, text[, try_from]); cn = clone; dn = drop; wl = with_location(slot, file choice, start); ta = to_cloned_arc; da = drop arc; ia = Arc<str>::from(name); cs = clone from shared array; sw = swap; cmp/sd/cv = compare/serde/convert; N* = Node<Tracked> new/clone/drop/make_mut/get_mut/same_location/compare; S* = Node<str>",
        })
    }
    pub fn from_json(j: &J) -> Result<Case, String> {
        let mut threads = vec![];
        for t in j["threads"].as_array().ok_or("threads")? {
            let mut ops = vec![];
            for o in t.as_array().ok_or("thread")? {
                ops.push(Op::decode(o.as_str().ok_or("op")?).ok_or_else(|| format!("bad op {o}"))?);
            }
            threads.push(ops);
        }
        Ok(Case {
            threads,
            strategy: strategy_from_s(j["strategy"].as_str().unwrap_or("replay")),
            sched_seed: j["sched_seed"].as_str().unwrap_or("0").parse().unwrap_or(0),
            switches: j["schedule"]
                .as_array()
                .into_iter()
                .flatten()
                .filter_map(|e| Some((e[0].as_u64()?, e[1].as_u64()? as usize)))
                .collect(),
        })
    }
}

pub fn gen_case(run_seed: u64) -> Case {
    let mut wl = Rng::split(run_seed, "workload");
    let mut sr = Rng::split(run_seed, "schedule");
    let n_threads = wl.range(1, 4) as usize;
    let cfg = crate::c30ops::GenCfg::draw(&mut wl);
    let total = wl.range(4, 60) as usize;
    let mut threads: Vec<Vec<Op>> = vec![vec![]; n_threads];
    for _ in 0..total {
        let t = wl.usize(n_threads);
        threads[t].push(crate::c30ops::gen_op_cfg(&mut wl, &cfg));
    }
    threads.retain(|t| !t.is_empty());
    if threads.is_empty() {
        threads.push(vec![gen_op(&mut wl, false)]);
    }
    let strategy = match sr.below(6) {
        0..=1 => Strategy::Random,
        2 => Strategy::Sticky(100),
        3 => Strategy::Sticky(400),
        4 => Strategy::Pct(2),
        _ => Strategy::Pct(3),
    };
    Case {
        threads,
        strategy,
        sched_seed: sr.next_u64(),
        switches: vec![],
    }
}

pub struct CaseResult {
    pub violation: Option<Violation>,
    pub counters: Vec<(String, u64)>,
    pub interleaving: u64,
    pub switches: Vec<(u64, usize)>,
    pub event_digest: u64,
}

pub fn exec_case(case: &Case) -> CaseResult {
    LIVE_PAYLOADS.store(0, std::sync::atomic::Ordering::SeqCst);
    crate::c30ops::CLONE_PANICS.store(false, std::sync::atomic::Ordering::SeqCst);
    simalloc::arm();
    let pool: Arc<Mutex<Option<Pool>>> = Arc::new(Mutex::new(None));
    let problems: Arc<Mutex<Vec<(String, String)>>> = Arc::new(Mutex::new(vec![]));
    let log = Arc::new(Mutex::new(Digest::new()));
    // the pool is created by whichever thread runs first, inside allocation tracking
    let mut bodies: Vec<sched::Body> = vec![];
    for ops in case.threads.iter().cloned() {
        let pool = pool.clone();
        let problems = problems.clone();
        let log = log.clone();
        bodies.push(Box::new(move |ctx: &sched::Ctx| {
            for op in &ops {
                ctx.point("op");
                let mut g = pool.lock().unwrap();
                if !problems.lock().unwrap().is_empty() {
                    return;
                }
                let r = std::panic::catch_unwind(std::panic::AssertUnwindSafe(|| {
                    simalloc::tracked(|| {
                        if g.is_none() {
                            *g = Some(Pool::new());
                        }
                        let p = g.as_mut().unwrap();
                        p.apply(op).and_then(|()| p.check())
                    })
                }));
                let r = match r {
                    Ok(r) => r,
                    Err(_) => Err(("panic".to_string(), crate::exec::take_last_panic())),
                };
                log.lock().unwrap().update_str(&op.encode());
                if let Err((class, detail)) = r {
                    // strings allocated inside tracking are copied out and dropped
                    let copy = (class.as_str().to_owned(), format!("after `{}` on thread {}: {}", op.encode(), ctx.tid, detail));
                    drop((class, detail));
                    problems.lock().unwrap().push(copy);
                    return;
                }
            }
        }));
    }
    let n_ops: u64 = case.threads.iter().map(|t| t.len() as u64).sum();
    let cfg = sched::Config {
        strategy: case.strategy.clone(),
        seed: case.sched_seed,
        switches: case.switches.clone(),
        step_cap: 100_000,
        expected_points: n_ops + 4,
    };
    let out = sched::run(cfg, bodies, 0, None);
    let mut violation: Option<Violation> = out
        .problems
        .first()
        .or(problems.lock().unwrap().first())
        .map(|(c, d)| Violation {
            class: c.clone(),
            detail: d.clone(),
        });
    // conservation: drop everything (tracked), then the allocator must have nothing live
    let mut stats: BTreeMap<&'static str, u64> = BTreeMap::new();
    let taken = pool.lock().unwrap().take();
    if let Some(p) = taken {
        if violation.is_none() {
            let r = std::panic::catch_unwind(std::panic::AssertUnwindSafe(|| simalloc::tracked(|| p.finish())));
            match r {
                Ok(Ok(s)) => {
                    stats = s.iter().map(|(k, v)| (*k, *v)).collect();
                    simalloc::tracked(|| drop(s));
                }
                Ok(Err((c, d))) => {
                    violation = Some(Violation {
                        class: c.as_str().to_owned(),
                        detail: d.as_str().to_owned(),
                    });
                    simalloc::tracked(|| drop((c, d)));
                }
                Err(_) => {
                    violation = Some(Violation {
                        class: "panic".into(),
                        detail: format!("while dropping everything: {}", crate::exec::take_last_panic()),
                    })
                }
            }
        } else {
            // after a violation the pool may be corrupt: do not touch it again (leak it)
            std::mem::forget(p);
        }
    }
    let report = simalloc::disarm();
    if violation.is_none() {
        if report.double_frees > 0 {
            violation = Some(Violation {
                class: "double_free".into(),
                detail: format!("{} deallocations of blocks that were already freed", report.double_frees),
            });
        } else if !report.leaked.is_empty() {
            let (size, bytes) = &report.leaked[0];
            violation = Some(Violation {
                class: "leak".into(),
                detail: format!(
                    "{} blocks allocated during the run are still live after every name, node and string was dropped; first: {size} bytes {:?}",
                    report.leaked.len(),
                    String::from_utf8_lossy(bytes)
                ),
            });
        }
    }
    let mut counters: Vec<(String, u64)> = stats.iter().map(|(k, v)| (k.to_string(), *v)).collect();
    counters.push(("points".into(), out.steps));
    counters.push(("switches".into(), out.switches.len() as u64));
    counters.push(("alloc.tracked_allocations".into(), report.tracked_allocs));
    counters.push(("alloc.quarantined_frees".into(), report.quarantined));
    counters.push((format!("threads.{}", case.threads.len()), 1));
    if report.table_overflow {
        counters.push(("alloc.table_overflow".into(), 1));
    }
    let mut d = log.lock().unwrap().clone();
    d.update_u64(out.interleaving_digest);
    CaseResult {
        violation,
        counters,
        interleaving: out.interleaving_digest,
        switches: out.switches.iter().map(|(s, _, _, t)| (*s, *t)).collect(),
        event_digest: d.u64(),
    }
}

fn case_digest(case: &Case) -> u64 {
    let mut d = Digest::new();
    for t in &case.threads {
        for o in t {
            d.update_str(&o.encode());
        }
        d.update_str("|");
    }
    d.u64()
}

fn explicit(case: &Case, r: &CaseResult) -> Case {
    let mut c = case.clone();
    c.strategy = Strategy::Replay;
    c.switches = r.switches.clone();
    c
}

impl Property for C30 {
    fn id(&self) -> &'static str {
        "C30"
    }
    fn engine(&self) -> &'static str {
        "sched+simalloc"
    }
    fn level(&self) -> &'static str {
        "exploration"
    }
    fn units(&self, tier: Tier) -> u64 {
        match tier {
            Tier::Quick => 120_000,
            Tier::Thorough => 3_000_000,
        }
    }

    fn run_unit(&self, seed: u64, unit: u64, _tier: Tier, sink: &mut dyn FnMut(RunReport)) {
        let run_seed = mix(&[seed, 30, unit]);
        let case = gen_case(run_seed);
        let r = exec_case(&case);
        let mut rep = RunReport::default();
        rep.case_digest = case_digest(&case);
        rep.schedule_digest = r.interleaving;
        rep.nontrivial = case.threads.iter().map(|t| t.len()).sum::<usize>() >= 3;
        rep.event_digest = r.event_digest;
        rep.counters = r.counters.clone();
        let ex = explicit(&case, &r);
        if let Some(v) = r.violation {
            rep.violation = Some((v, ex.to_json()));
        }
        if unit < 8 {
            rep.sample = Some(ex.to_json());
        }
        sink(rep);
    }

    fn replay(&self, case: &J) -> Result<Option<Violation>, String> {
        if case.get("miri").is_some() {
            return crate::core::miri::replay(case);
        }
        let case = Case::from_json(case)?;
        Ok(exec_case(&case).violation)
    }

    fn post_batch(&self, seed: u64, tier: Tier) -> Result<(J, Vec<(Violation, J)>), String> {
        use crate::core::miri;
        if tier == Tier::Quick {
            // a small slice of the Miri tiers (a few seconds once the crate is built)
            let base = mix(&[seed, 0x4d34]) % 1_000_000;
            let jobs = vec![
                miri::Job {
                    mode: "c30-history",
                    workload_seed: base,
                    workload_count: 12,
                    miri_seeds: 2,
                    flags: miri::FLAGS_STRICT,
                },
                miri::Job {
                    mode: "c30-free",
                    workload_seed: base + 1,
                    workload_count: 1,
                    miri_seeds: 16,
                    flags: miri::FLAGS_STRICT,
                },
            ];
            return match miri::run_jobs(jobs, 1) {
                Ok(r) => Ok(r),
                Err(e) => Ok((json!({"miri": format!("not run in this quick tier: {e}")}), vec![])),
            };
        }
        let base = mix(&[seed, 0x4d31]) % 1_000_000;
        let mut jobs = vec![];
        for k in 0..8 {
            jobs.push(miri::Job {
                mode: "c30-history",
                workload_seed: base + 100 * k,
                workload_count: 16,
                miri_seeds: 2,
                flags: miri::FLAGS_STRICT,
            });
        }
        for k in 0..8 {
            jobs.push(miri::Job {
                mode: "c30-free",
                workload_seed: base + 1000 + k,
                workload_count: 1,
                miri_seeds: 16,
                flags: miri::FLAGS_STRICT,
            });
        }
        // the first job alone (it builds the crate), the rest four at a time
        let first = jobs.remove(0);
        let (mut ev, mut violations) = miri::run_jobs(vec![first], 1)?;
        let (ev2, v2) = miri::run_jobs(jobs, 4)?;
        if let (Some(a), Some(b)) = (ev["miri"].as_array_mut(), ev2["miri"].as_array()) {
            a.extend(b.iter().cloned());
        }
        violations.extend(v2);
        Ok((ev, violations))
    }

    fn minimise(&self, case: &J, class: &str) -> (J, u64) {
        let Ok(mut best) = Case::from_json(case) else {
            return (case.clone(), 0);
        };
        let mut steps = 0u64;
        let rerecord = |c: &Case, steps: &mut u64| -> Option<Case> {
            *steps += 1;
            let r = exec_case(c);
            if r.violation.as_ref().map(|v| v.class.as_str()) == Some(class) {
                Some(explicit(c, &r))
            } else {
                None
            }
        };
        // first: put everything on one thread if the violation does not need threads
        if best.threads.len() > 1 {
            // merge in the order actually executed is not recorded; try simple concatenation
            let mut c = best.clone();
            let all: Vec<Op> = c.threads.iter().flatten().cloned().collect();
            c.threads = vec![all];
            c.switches.clear();
            if let Some(c2) = rerecord(&c, &mut steps) {
                best = c2;
            }
        }
        loop {
            let mut progress = false;
            // drop chunks of ops, then single ops (ddmin-like)
            for t in 0..best.threads.len() {
                let mut chunk = (best.threads[t].len() / 2).max(1);
                while chunk >= 1 {
                    let mut k = 0;
                    while k < best.threads[t].len() {
                        let mut c = best.clone();
                        let end = (k + chunk).min(c.threads[t].len());
                        c.threads[t].drain(k..end);
                        if let Some(c2) = rerecord(&c, &mut steps) {
                            best = c2;
                            progress = true;
                        } else {
                            k += chunk;
                        }
                        if steps > 4000 {
                            break;
                        }
                    }
                    if chunk == 1 {
                        break;
                    }
                    chunk /= 2;
                }
            }
            // drop threads that have become empty: thread ids shift, so the schedule is renumbered
            // and the result re-recorded; kept only if the violation is still there
            if best.threads.iter().any(|t| t.is_empty()) && best.threads.iter().any(|t| !t.is_empty()) {
                let mut map = vec![None; best.threads.len()];
                let mut next = 0usize;
                for (i, t) in best.threads.iter().enumerate() {
                    if !t.is_empty() {
                        map[i] = Some(next);
                        next += 1;
                    }
                }
                let mut c = best.clone();
                c.threads.retain(|t| !t.is_empty());
                c.switches = best
                    .switches
                    .iter()
                    .filter_map(|(step, t)| map.get(*t).copied().flatten().map(|n| (*step, n)))
                    .collect();
                if let Some(c2) = rerecord(&c, &mut steps) {
                    best = c2;
                } else {
                    // the empty thread's mere existence shifts the schedule: try a fresh recording
                    c.switches.clear();
                    c.strategy = Strategy::Random;
                    if let Some(c2) = rerecord(&c, &mut steps) {
                        best = c2;
                    }
                }
            }
            if best.threads.iter().all(|t| t.is_empty()) {
                break;
            }
            // replace schedule choices by "stay on the current thread"
            let mut i = 0;
            while i < best.switches.len() {
                let mut c = best.clone();
                c.switches.remove(i);
                steps += 1;
                let r = exec_case(&c);
                if r.violation.as_ref().map(|v| v.class.as_str()) == Some(class) {
                    best = c;
                    progress = true;
                } else {
                    i += 1;
                }
            }
            if !progress || steps > 4000 {
                break;
            }
        }
        (best.to_json(), steps)
    }

    fn signature(&self, v: &Violation, _case: &J) -> String {
        v.class.clone()
    }

    fn rule(&self) -> String {
        "unit = one seeded history of 4-60 operations on a pool of 8 name slots, 4 Arc<str> slots, 6 Node<Tracked> and 4 Node<str> slots \
         (creation from borrowed / static / reference-counted strings, clone, drop, with_location incl. file ids next to the tag bit, \
         to_cloned_arc, Arc<str>::from(name), shared read-only array, swap, eq/ord/hash, serde round trip, make_mut with and without an \
         injected panic in the payload's Clone, get_mut, same_location, ptr_eq), distributed over 1-4 simulated threads under the baton \
         scheduler; the reference model (text, location, static/heap, backing-string groups, node alias groups) is checked after every \
         operation, Arc::strong_count of every backing string included; at the end everything is dropped and the instrumented allocator \
         must report no live block, no double free. Non-trivial = at least 3 operations; distinct = distinct (history digest, interleaving digest)."
            .into()
    }

    fn assumptions(&self) -> Vec<String> {
        vec![
            "native tier: operations are atomic with respect to the baton scheduler (no scheduling point inside Name/Node code); interleavings inside Arc's atomics are the Miri tier's subject".into(),
            "reads after free are detected through 0xDD poisoning of quarantined blocks and the model comparison, not by trapping".into(),
            "locations are built with SourceSpan::__verif_new (no parsing) and respect with_location's documented precondition (span length = name length)".into(),
        ]
    }

    fn real_vs_stub(&self) -> J {
        json!({
            "real": ["apollo_compiler::Name, Node<T>, Node<str>, TaggedFileId packing, triomphe::Arc, std::sync::Arc"],
            "stub": ["which thread runs next (baton scheduler)", "global allocator wrapper (delegates to System; bookkeeping, poisoning, quarantine)", "node payload type Tracked (counts constructions/drops, can panic in Clone)"],
        })
    }
}
