mod c30ops;
mod core;
mod exec;
mod gen;
mod pipeline;
mod props;
mod sched;
mod simalloc;

/// `c30ops.rs` is shared with the Miri crate, where the PRNG module sits at the crate root
mod rng {
    pub use crate::core::rng::*;
}

#[global_allocator]
static GLOBAL: simalloc::SimAlloc = simalloc::SimAlloc;

fn main() {
    std::process::exit(core::batch::main_entry());
}
